#!/bin/sh
# developer helper: build the harness (same as ./check does) and show errors
HERE=$(cd "$(dirname "$0")" && pwd)
export CARGO_TARGET_DIR="$HERE/target" CARGO_NET_OFFLINE=true
cd "$HERE/mc" && cargo build --offline --profile verif --bin mc "$@" 2>&1 | grep -E "^(error|warning: unused variable)" -A14 | grep -v "^warning" | head -80
