#!/bin/sh
# developer helper: run the thorough tier of the given checks one after another in /verif (evidence files are overwritten: rerun quick afterwards)
HERE=$(cd "$(dirname "$0")/.." && pwd)
for id in "$@"; do
  s=$(date +%s)
  $HERE/check $id thorough > $HERE/target/logs/$id.thorough.local.log 2>&1; rc=$?
  e=$(date +%s)
  echo "$id thorough exit=$rc wall=$((e-s))s $(grep -c '^VIOLATION' $HERE/target/logs/$id.thorough.local.log) violations :: $(tail -1 $HERE/target/logs/$id.thorough.local.log | cut -c1-150)" >> $HERE/target/logs/summary.thorough.local.txt
done
