#!/bin/sh
# apply.sh all   -> apply every pair file without committing
# apply.sh commit -> apply and commit each in order
cd /repo
for f in /tmp/md/[0-9]*.py; do
  python3 /verif/tools/crlf_edit.py src/syntax/src/formatter.rs $f || { echo "FAILED $f"; exit 1; }
  if [ "$1" = commit ]; then
    python3 - "$f" <<'PY'
import sys,subprocess
exec(open(sys.argv[1]).read())
subprocess.check_call(['git','-C','/repo','commit','-q','-am',MSG])
PY
    git log --oneline | head -1
  fi
done
