#!/bin/sh
# regression sweep in isolation: a scratch worktree of /repo's HEAD and a scratch copy of this harness (own target dir),
# so that /repo's working tree is never touched and other checks can run meanwhile.
# usage: tools/sweep_seeds_isolated.sh [seed-name-prefix ...]   -> /verif/target/logs/seeds.txt
HERE=$(cd "$(dirname "$0")/.." && pwd)
R=/tmp/wt/sweeprepo; H=/tmp/wt/sweepverif
OUT=$HERE/target/logs/seeds.txt; mkdir -p $HERE/target/logs
[ -d $R ] || git -C /repo worktree add --detach $R HEAD >/dev/null 2>&1
git -C $R checkout -q --detach $(git -C /repo rev-parse HEAD); git -C $R checkout -q -- .
mkdir -p $H; rsync -a --delete --exclude target --exclude .git $HERE/ $H/
sed -i "s#/repo#$R#g" $H/mc/Cargo.toml
cp /repo/Cargo.lock $H/mc/Cargo.lock 2>/dev/null
PREF=${*:-C}
for d in $HERE/seeded/*/; do
  n=$(basename $d); id=${n%%-*}
  ok=0; for p in $PREF; do case $n in $p*) ok=1;; esac; done; [ $ok = 1 ] || continue
  p=$d/patch.diff; [ -f $d/patch_rebased_on_repaired_tree.diff ] && p=$d/patch_rebased_on_repaired_tree.diff
  sed -i "/^$n /d" $OUT 2>/dev/null
  if ! git -C $R apply --check $p 2>/dev/null; then echo "$n DOES-NOT-APPLY" >> $OUT; continue; fi
  git -C $R apply $p
  MC_WORKERS=${MC_WORKERS:-8} $H/check $id quick > $HERE/target/logs/seed.$n.log 2>&1; rc=$?
  git -C $R checkout -q -- .
  git -C $R apply --numstat $p | cut -f3 | while read f; do [ -f "$R/$f" ] && touch "$R/$f"; done
  echo "$n exit=$rc violations=$(grep -c '^VIOLATION' $HERE/target/logs/seed.$n.log) :: $(grep '^  key=' $HERE/target/logs/seed.$n.log | head -3 | cut -c7-90 | tr '\n' ';')" >> $OUT
done
echo "done $(date)" >> $OUT
