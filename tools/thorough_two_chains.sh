#!/bin/sh
# developer helper: the thorough tier of every check in two parallel chains (7 workers each); summary in target/logs/summary.thorough.txt
./setup.sh >/dev/null 2>&1
(MC_WORKERS=7 tools/run_all.sh thorough C09 C07 C04 > /dev/null 2>&1 &)
MC_WORKERS=7 tools/run_all.sh thorough C11 C14 C03 C01 C02 C08 C05 C06 C10 C12 C13 C15 C16 C18 C19 C20 C17
sleep 5
while pgrep -f "run_all.sh thorough C09" >/dev/null; do sleep 20; done
cat target/logs/summary.thorough.txt
