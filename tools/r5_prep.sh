#!/bin/sh
# tools/r5_prep.sh <ID>...  — scratch worktree (with a copy of the pre-built target/) and the prompt for a round-4 sub-agent
for ID in "$@"; do
  WT=/tmp/wt/r5$ID
  [ -d $WT ] || git -C /repo worktree add --detach $WT HEAD >/dev/null 2>&1
  [ -d $WT/target ] || cp -a /repo/target $WT/target
  mkdir -p /tmp/wt/out/r5$ID /tmp/wt/prompts
  python3 - "$ID" "$WT" <<'PY'
import json,sys,glob,os
id,wt=sys.argv[1:3]
prop=None
for l in open('/verif/properties.jsonl'):
    p=json.loads(l)
    if p['id']==id: prop=p
text="%s — %s\n\nStatement: %s\n\nQuantified over: %s\n\nWhy the existing tests cannot settle it: %s\n\nAnchored in: %s\nMechanisms: %s" % (
  prop['id'],prop['title'],prop['statement'],prop['quantifier']['text'],prop['why_tests_cant'],', '.join(prop['anchors']['files']),
  '; '.join('%s (%s)'%(m['name'],m['where']) for m in prop['anchors']['mechanism']))
av=[]
for d in sorted(glob.glob('/verif/seeded/%s-*/meta.json'%id)):
    m=json.load(open(d))
    av.append("  - %s: shows with %s" % (m['name'].split('-',2)[-1].replace('-',' '), m['needs_to_manifest']))
avoid="Other contributors have already submitted the following changes for this property; yours must differ from them in mechanism and location (no repeats or close variants):\n"+"\n".join(av)+"\n" if av else ""
t=open('/verif/tools/seed_agent_prompt_r5.txt').read()
t=t.replace('@WT@',wt).replace('@ID@','r5'+id).replace('@PROP@',text).replace('@AVOID@',avoid)
open('/tmp/wt/prompts/r5%s.txt'%id,'w').write(t)
PY
done
