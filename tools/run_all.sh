#!/bin/sh
# developer helper: run every check of one tier in sequence, one log per check, a summary at the end
TIER=${1:-quick}; shift
IDS=${*:-C01 C02 C03 C04 C05 C06 C07 C08 C09 C10 C11 C12 C13 C14 C15 C16 C17 C18 C19 C20}
HERE=$(cd "$(dirname "$0")/.." && pwd)
mkdir -p $HERE/target/logs
for id in $IDS; do
  s=$(date +%s)
  $HERE/check $id $TIER > $HERE/target/logs/$id.$TIER.log 2>&1; rc=$?
  e=$(date +%s)
  echo "$id $TIER exit=$rc wall=$((e-s))s $(grep -c '^VIOLATION' $HERE/target/logs/$id.$TIER.log) violations :: $(tail -1 $HERE/target/logs/$id.$TIER.log | cut -c1-160)" >> $HERE/target/logs/summary.$TIER.txt
done
echo "done $(date)" >> $HERE/target/logs/summary.$TIER.txt
