#!/bin/sh
# tools/verify_seed.sh <ID> <m1|m2>  — independent confirmation of a seeded change in the agent's scratch worktree:
# demo fails with the change, passes without it, and the whole unedited suite passes with the change.
ID=$1; M=$2; WT=${WT_BASE:-/tmp/wt}/$ID; OUT=${OUT_BASE:-/tmp/wt/out}/$ID/$M; LOG=$OUT/verify.log
[ -n "$VS_DEFAULT_PROFILE" ] || export CARGO_PROFILE_DEV_DEBUG=0 CARGO_PROFILE_TEST_DEBUG=0
cd $WT || exit 2
git checkout -q -- . ; rm -f tests/demo_test.rs
: > $LOG
if [ -f $OUT/demo_test.rs ]; then cp $OUT/demo_test.rs tests/demo_test.rs; else echo "NO demo_test.rs" >> $LOG; fi
echo "== demo WITHOUT change" >> $LOG
cargo test --offline -j 6 --test demo_test >> $LOG 2>&1; echo "demo_without_exit=$?" >> $LOG
git apply $OUT/patch.diff || { echo "PATCH DOES NOT APPLY" >> $LOG; exit 2; }
echo "== demo WITH change" >> $LOG
cargo test --offline -j 6 --test demo_test >> $LOG 2>&1; echo "demo_with_exit=$?" >> $LOG
rm -f tests/demo_test.rs
echo "== suite WITH change" >> $LOG
cargo test --workspace --no-fail-fast --offline -j 6 2>&1 | grep -E "^test result|FAILED|failed" >> $LOG; 
echo "suite_failed_lines=$(grep -c 'FAILED\|[1-9][0-9]* failed' $LOG)" >> $LOG
git checkout -q -- .
grep -E "demo_without_exit|demo_with_exit|suite_failed_lines|passed" $LOG | tail -8
