#!/bin/sh
# developer helper: sync this tree to a scratch copy with its own target dir and run `check` there,
# so that work on the harness does not disturb runs in /verif (which share /verif/target and the binaries).
# usage: tools/dev.sh <ID> <tier>      (MC_WORKERS defaults to 4)
HERE=$(cd "$(dirname "$0")/.." && pwd); D=/tmp/wt/dev
mkdir -p $D; rsync -a --delete --exclude target --exclude .git --exclude evidence --exclude replays $HERE/ $D/
mkdir -p $D/evidence; cp /repo/Cargo.lock $D/mc/Cargo.lock 2>/dev/null
MC_WORKERS=${MC_WORKERS:-4} $D/check "$@"
