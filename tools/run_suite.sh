#!/bin/sh
# run the repository's own test suite on /repo's HEAD in a dedicated scratch worktree (so /repo's working tree stays free for seeded patches)
cd /tmp/wt/suite && git checkout -q --detach $(git -C /repo rev-parse HEAD) && (time nice cargo test --workspace --no-fail-fast --offline -j 6 2>&1 | grep -E "^test result|FAILED|failed|panicked") > /tmp/wt/suite.log 2>&1
echo "suite done at $(git rev-parse --short HEAD)" >> /tmp/wt/suite.log
