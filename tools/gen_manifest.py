#!/usr/bin/env python3
"""Regenerates MANIFEST.json from tools/checks.json (one entry per implemented check)."""
import json, os
here = os.path.dirname(os.path.dirname(os.path.abspath(__file__)))
checks = json.load(open(os.path.join(here, 'tools', 'checks.json')))
props = [json.loads(l) for l in open(os.path.join(here, 'properties.jsonl'))]
out = {
  "version": 1,
  "setup_cmd": "./setup.sh",
  "hooks": {
    "guard": "mech_verif",
    "enable": "none needed: every observation point is public API (Interpreter, parser, Formatter, ParsedProgram, read_mech_source_file); checks build /repo's working tree as path dependencies of /verif/mc with profile 'verif' (dev + opt-level 1)",
    "baseline_off_cmd": "cd /repo && cargo test --workspace --no-fail-fast --offline",
    "source_commits": [],
    "add_only": True
  },
  "engines": [
    {"name": "mc", "path": "/verif/mc", "serves_properties": [c["id"] for c in checks["checks"] if c["id"] not in ("C19", "C20")],
     "kind_free_text": "bounded exhaustive enumeration / explicit-state BFS driver; the subject (mech-core, mech-syntax, mech-interpreter built from /repo's working tree) runs only in worker subprocesses under an address-space cap and a per-unit wall-clock budget; every case is judged against a reference model written in the harness"},
    {"name": "mcfs", "path": "/verif/mc", "serves_properties": ["C19", "C20"],
     "kind_free_text": "the same harness built with feature `fs`, which links the top-level `mech` crate for mech::read_mech_source_file (C20) and mech::MechRepl (C19)"},
  ],
  "checks": [],
  "not_applicable": [],
  "notes": checks.get("notes", "")
}
done = set()
for c in checks["checks"]:
  done.add(c["id"])
  out["checks"].append({
    "property_id": c["id"],
    "quick_cmd": "./check %s quick" % c["id"],
    "thorough_cmd": "./check %s thorough" % c["id"],
    "evidence_file": "/verif/evidence/%s.json" % c["id"],
    "replay_cmd_template": "./check replay {path}",
    "engine": "mcfs" if c["id"] in ("C19", "C20") else "mc",
    "level_claimed": {"category": c["level"], "text": c["text"], "design_ref": "DESIGN.md section 4, %s" % c["id"]},
    "level_note": c["note"],
    "technique": c["technique"],
  })
for p in props:
  if p["id"] not in done:
    out["not_applicable"].append({"property_id": p["id"], "reason": checks.get("pending_reason", {}).get(p["id"], "check designed in DESIGN.md section 4 but not built yet in this round; not claimed until its machinery exists and passes on the unchanged tree")})
json.dump(out, open(os.path.join(here, 'MANIFEST.json'), 'w'), indent=1)
print("claimed:", sorted(done), "not claimed:", [x["property_id"] for x in out["not_applicable"]])
