#!/bin/sh
# tools/try_seed.sh <patch> <ID> [tier] — apply a seeded patch to /repo (must be clean), run one check, undo.
P=$1; ID=$2; T=${3:-quick}
[ -z "$(git -C /repo status --porcelain)" ] || { echo "/repo not clean"; exit 2; }
git -C /repo apply "$P" || { echo "patch does not apply"; exit 2; }
/verif/check $ID $T > /tmp/try_seed.out 2>&1; rc=$?
git -C /repo checkout -- .
# the reverted files must look newer than anything built from the patched ones (a build that was still running would otherwise be taken as fresh)
git -C /repo apply --numstat "$P" | cut -f3 | while read f; do [ -f "/repo/$f" ] && touch "/repo/$f"; done
grep -E "VIOLATION|KNOWN|^$ID |MACHINERY|VACUOUS" /tmp/try_seed.out | cut -c1-260 | head -${4:-8}
echo "exit=$rc"
