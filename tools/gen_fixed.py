#!/usr/bin/env python3
"""maintenance (never run by a check): rewrite the 'fixed' entries of known_findings.json from the fix: commits of /repo.
Each entry names the property whose check found the defect, the commit and what failed; fixed entries suppress nothing."""
import json, subprocess
PINNED = '1169799'
PROP = {  # commits not about the formatter (those are C08)
 '9da8992': 'C01', 'd91e622': 'C03', '2e9f859': 'C03', 'e7ac799': 'C04', '28e0ccd': 'C04', '22d5cf1': 'C04', '6d0a232': 'C04', '3185aeb': 'C05',
 'd507f44': 'C07', 'ca7721f': 'C07', 'aa84597': 'C07', '7352774': 'C07', 'aa57ab3': 'C07', 'da82204': 'C07', 'c864160': 'C07', '35f4813': 'C13', '318b264': 'C15',
 'e0debc7': 'C14', '8fc911b': 'C14', '030290f': 'C14', 'addb726': 'C09', '103d34f': 'C09', '323d523': 'C09', '8d010c9': 'C16', 'c16bd2e': 'C16', '2a694fb': 'C11',
 '5603d42': 'C09', '9cca7b9': 'C09', '3135f98': 'C14', 'c16cd21': 'C07', 'c37f7fa': 'C04', '1f3fa07': 'C04', '203a945': 'C13', '0741ac7': 'C05', '65aed90': 'C07', '5e65646': 'C09', '54326f5': 'C10', '283d8d7': 'C14', '2dc6595': 'C14', 'ae4ea37': 'C14', '1947967': 'C16', 'a564d2f': 'C16', 'f694c67': 'C16', '6a050cf': 'C05', 'dc5309b': 'C14'}
EXAMPLE = {
 '9da8992': 'a<[u8]> := [7 6]; b<[u8]> := [3 5 2]; r := a < b  (-> [false false] instead of a dimension error)',
 'd91e622': 'x := [1 2 3; 4 5 6; 7 8 9]; x[[true false true],:]', '2e9f859': 'x := [1 2 3]; x[[true false]]', 'e7ac799': '~x := [2 4; 6 8]; x[1,:] /= 2',
 '28e0ccd': '~x := [1 2; 3 4]; x[[1 5],1] = 9  (wrote x[1,1] before failing on row 5)', '22d5cf1': '~x := [1 2 3]; x[2] += 10',
 '6d0a232': '~x := [1 2; 3 4; 5 6]; x[[false true true],:] = 0', '3185aeb': '(a, b, c) := (1, 2)  (left a and b defined)',
 'd507f44': 'a constant blob whose element count field is 0xFFFFFFFF', 'ca7721f': 'a header whose section offset/length points past the end of the file',
 'aa84597': 'a constant entry with a type id beyond the type table', '7352774': 'a constant entry whose payload is shorter than its declared shape',
 'aa57ab3': '{_} / a decoded set constant holding an empty value', 'da82204': 'a VarArg instruction with argument count 0xFFFFFFFF',
 'c864160': 'a matrix constant declaring 0 rows and 0xFFFFFFFF columns', '35f4813': 'x := 1.1e-1  (-> 0.11000000000000001)', '318b264': 'x := 250u8..=255u8',
 'e0debc7': '{0.0, -0.0}', '8fc911b': '{{1,2},{2,1}}', '030290f': '{1,2} ∪ {"a"}', 'addb726': 'parse("$$$$")', '103d34f': 'parse("```ebnf\\nnot a grammar\\n```")',
 '323d523': 'parse("⸥")  (never returned; memory grew until the process aborted)',
 '8d010c9': 'q<shape> := :square(2); r := q? | :circle(x), x > 2 => x | * => 0.  (-> UndefinedVariable)',
 'c16bd2e': '<a> := :on | :off; <b> := :on | :off; u<b> := :off; r := u? | :on => 1 | :off => 2.  (-> MatchNonExhaustive)',
 '2a694fb': 'a<i64> := 1; b<i64> := 2; r := [a; b]', '5603d42': 'parse("x := 1.0e5u8")', '9cca7b9': 'parse("```ebnf\\na := \\"\\" ;\\n```")',
 '162436d': 'x := [1 2; 3 4]  (formatted as [1 3 2 4])', '0557739': 'x := 1..2..10  (formatted as 1..10..2)', '7e1c08f': 'x := f(x: 1)  (formatted as f(x1))',
 '50bfe95': '(1.1.1.1.1.1) Title  (came back as a level-6 heading)', '3135f98': 'x := 2; r := x ∈ {1,2,3}  (-> false)', 'c37f7fa': '~x<[i128]> := [1 2 3]; s<i128> := 2; x[1..=2] += s  (-> UnhandledFunctionArgumentIxes)', '0741ac7': '(b, c) := (1, 2); b = 7  (accepted: destructured names were mutable)', '65aed90': 'the emitted file of x := {1,2,3} with the set constant replaced by 65536 bytes 0x15 (or 0x1D), table entry, header and checksum rewritten: decode_const_entries overflowed the stack (SIGABRT)', '5e65646': 'parse("(" + "x."*254 + "x) T")  (255 dotted components: attempt to add with overflow)', 'f6a7435': 'x := a ⨯ b  (formatted as a × b, a multiplication); x := a =!= b  (formatted as a =/= b, which does not parse)', '54326f5': 'a := 1 / ```mech:beta / w := [1 2 3] / q := w[7] / ``` / c := 3  (the index panic inside the named fence ended the whole document: c was never defined)', '283d8d7': 'x := 1; y := 2; r := {x, y}; 1 ∈ r  (-> false; r ∪ {1,2} -> SetKindMismatch: the elements were references)', 'ae4ea37': 'p := 1; q := 2; s := {(p,q)}; (1,2) ∈ s  (-> false: the tuple held references)', '1947967': 'x<u8> := 1; r := x? | 1u8 => 10u8 | n => n / 0u8 | * => 99u8.  (-> UnknownPanic: the body of the later arm was evaluated to compare arm kinds)', 'dc5309b': 'p := {9}; s := {1,2}; r := s? | p => {x | x <- p} | * => {0}.  (-> {9}: the comprehension read the global p, not the name bound by the arm)', '6a050cf': '(a, a) := (1, 2)  (-> VariableAlreadyDefined, but a was left defined as 1)', 'a564d2f': 'g(x<f64>, y<f64>) => <f64> | (0, b) => b | * => 99.; g(1, 2)  (-> FunctionOutputUndefined: the wildcard arm never matched two arguments)', 'f694c67': 'x := 0.5; r := x? | 0u64 => 1 | * => 2.  (-> 1: the subject was truncated before the comparison)', '2dc6595': 'z := 0+0i; w := -z; s := {z, w}  (-> a set of size 2 holding two equal elements)', '1f3fa07': '~x := [1 2 3]; y := 9; x[2] = y  (-> UnhandledFunctionArgumentIxes, while x[2] = 9 is accepted; the same for x[r,c], x[r,:], x[:,c], x[[..],c] ...)', '203a945': 'x := 1/2+3i  (-> 0+3i)', 'c16cd21': 'from_bytes of the emitted file of a program with 12 variables (unexpected end of file)'}
kf = json.load(open('/verif/known_findings.json'))
kf['findings'] = [e for e in kf['findings'] if e['status'] != 'fixed']
log = subprocess.check_output(['git', '-C', '/repo', 'log', '--format=%h\t%s', PINNED + '..HEAD', '--reverse']).decode().splitlines()
n = 0
for l in log:
    h, s = l.split('\t', 1)
    if not s.startswith('fix:'): continue
    prop = PROP.get(h, 'C08' if 'formatter' in s else None)
    assert prop, 'no property recorded for ' + l
    body = subprocess.check_output(['git', '-C', '/repo', 'log', '-1', '--format=%b', h]).decode().strip().replace('\n', ' ')
    kf['findings'].append({"property": prop, "key": "%s|fixed|%s" % (prop, h), "status": "fixed", "commit": h, "what_fails": body,
                           "example": EXAMPLE.get(h, ""), "line": "fixed: property=%s %s %s" % (prop, h, s[len('fix: '):])})
    n += 1
json.dump(kf, open('/verif/known_findings.json', 'w'), indent=1, ensure_ascii=False)
print(n, 'fixed entries;', len([e for e in kf['findings'] if e['status'] == 'known']), 'known entries')
