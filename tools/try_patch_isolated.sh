#!/bin/sh
# apply one patch in the scratch worktree, run one check with the scratch copy of this harness (own target dir), undo.
# usage: tools/try_patch_isolated.sh <patch.diff> <ID> [tier]     (never touches /repo; not concurrently with sweep_seeds_isolated.sh)
HERE=$(cd "$(dirname "$0")/.." && pwd)
R=/tmp/wt/sweeprepo; H=/tmp/wt/sweepverif; P=$1; ID=$2; T=${3:-quick}
[ -d $R ] || git -C /repo worktree add --detach $R HEAD >/dev/null 2>&1
git -C $R checkout -q --detach $(git -C /repo rev-parse HEAD); git -C $R checkout -q -- .
mkdir -p $H; rsync -a --delete --exclude target --exclude .git --exclude evidence --exclude replays $HERE/ $H/; mkdir -p $H/evidence
sed -i "s#/repo#$R#g" $H/mc/Cargo.toml; cp /repo/Cargo.lock $H/mc/Cargo.lock 2>/dev/null
git -C $R apply --check "$P" || { echo "patch does not apply"; exit 2; }
git -C $R apply "$P"
MC_WORKERS=${MC_WORKERS:-8} $H/check $ID $T > /tmp/wt/try_patch.out 2>&1; rc=$?
git -C $R checkout -q -- .
git -C $R apply --numstat "$P" | cut -f3 | while read f; do [ -f "$R/$f" ] && touch "$R/$f"; done
grep -E "VIOLATION|KNOWN|^$ID |MACHINERY|VACUOUS|^  key=" /tmp/wt/try_patch.out | cut -c1-300 | head -${4:-12}
echo "exit=$rc"
