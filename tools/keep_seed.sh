#!/bin/sh
# tools/keep_seed.sh <ID> <m> <name> "<needs>" "<caught by>"   — store a confirmed seeded change under /verif/seeded/<name>/
ID=$1; M=$2; NAME=$3; NEEDS=$4; CAUGHT=$5
SRC=${OUT_BASE:-/tmp/wt/out}/$ID/$M; DST=/verif/seeded/$NAME
mkdir -p $DST
cp $SRC/patch.diff $DST/patch.diff
[ -f $SRC/demo_test.rs ] && cp $SRC/demo_test.rs $DST/demo_test.rs
[ -f $SRC/notes.md ] && cp $SRC/notes.md $DST/notes.md
grep -E "demo_without_exit|demo_with_exit|[1-9][0-9]* passed|FAILED" $SRC/verify.log > $DST/verify_summary.txt 2>/dev/null
python3 - "$ID" "$NAME" "$NEEDS" "$CAUGHT" <<'PY'
import json,sys
id,name,needs,caught=sys.argv[1:5]
json.dump({"property":id,"name":name,"breaks":id,"needs_to_manifest":needs,
 "confirmed_by":"tools/verify_seed.sh in the author's scratch worktree: demo_test passes without the patch, fails with it; `cargo test --workspace --no-fail-fast --offline` passes (652) with it (see verify_summary.txt)",
 "detected_by":caught,"author":"independent sub-agent given only the property text and a scratch worktree"},
 open('/verif/seeded/%s/meta.json'%name,'w'),indent=1)
PY
ls $DST
