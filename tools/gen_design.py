#!/usr/bin/env python3
"""maintenance: assemble DESIGN.md from tools/design_head.md, generated per-property sections and tables, tools/design_tail.md"""
import json, glob, subprocess, os, re, collections
V = '/verif'
checks = {c['id']: c for c in json.load(open(V + '/tools/checks.json'))['checks']}
notes = json.load(open(V + '/tools/design_notes.json'))
props = {}
for l in open(V + '/properties.jsonl'):
    d = json.loads(l); props[d['id']] = d
kf = json.load(open(V + '/known_findings.json'))['findings']
seeds = [json.load(open(p)) for p in sorted(glob.glob(V + '/seeded/*/meta.json'))]
cases = collections.Counter()
for p in glob.glob(V + '/known/*.cases'):
    for l in open(p):
        cases[l.split('\t')[0]] += 1

def logline(id, tier):
    p = '%s/target/logs/%s.%s.log' % (V, id, tier)
    if not os.path.exists(p): return None
    ls = [l for l in open(p, errors='replace').read().splitlines() if l.startswith(id + ' ' + tier + ':')]
    return ls[-1] if ls else None

def parse_log(l):
    m = re.search(r'evaluations=(\d+) nontrivial=(\d+) failures=(\d+) \(known (\d+) / unlisted (\d+)\) keys=(\d+) wall=([\d.]+)s', l or '')
    return m.groups() if m else None

def cell(s): return str(s).replace('|', '\\|').replace('\n', ' ')

out = [open(V + '/tools/design_head.md').read().rstrip('\n'), '', '-' * 80, '', '## 4. Per-property checks', '',
       'Each section is generated from `tools/checks.json` (the text that also fills MANIFEST.json) plus the notes in',
       '`tools/design_notes.json`; "measured" lines come from the last run logged under `target/logs` on the committed tree.', '']
for id in sorted(checks):
    c = checks[id]; p = props[id]
    out += ['### %s — %s' % (id, p['title']), '',
            '*Level:* `%s`. *Technique:* %s.' % (c['level'], c['technique']), '',
            '*Explored:* ' + c['text'], '', '*Trusted / not covered:* ' + c['note'], '']
    for tier in ('quick', 'thorough'):
        g = parse_log(logline(id, tier))
        if g: out.append('*Measured (%s):* %s evaluations, %s non-trivial, %s failing observations (%s known, %s unlisted) in %s finding keys, %s s on 16 workers.' % (tier, g[0], g[1], g[2], g[3], g[4], g[5], g[6]))
    if any(parse_log(logline(id, t)) for t in ('quick', 'thorough')): out.append('')
    known = [e for e in kf if e['property'] == id and e['status'] == 'known']
    fixed = [e for e in kf if e['property'] == id and e['status'] == 'fixed']
    if fixed: out += ['*Repaired:* ' + '; '.join('`%s` %s' % (e['commit'], e['line'].split(e['commit'], 1)[1].strip()) for e in fixed) + '.', '']
    if known:
        by = collections.OrderedDict()
        for e in known: by.setdefault(e['what_fails'], []).append(e)
        out.append('*Known findings (%d keys, %d exact cases):*' % (len(known), sum(cases[e['key']] for e in known)))
        for w, es in by.items(): out.append('  - %s — %d key(s), %d case(s), e.g. `%s`' % (w, len(es), sum(cases[e['key']] for e in es), es[0]['key']))
        out.append('')
    for n in notes.get(id, []): out += ['* ' + n]
    out += ['']
out += ['-' * 80, '', '## 5. What the checks found on the pinned tree', '',
        '### 5.1 Repairs (*generated* from the git log of /repo and `known_findings.json`)', '',
        'Each is one unguarded commit whose message starts with `fix:`; the unedited suite passes (652 tests) at the head of this list.',
        'A `fixed` entry suppresses nothing: the check that found the defect passes on the repaired tree and reports it again if it returns.', '',
        '| property | commit | what failed |', '|---|---|---|']
for e in [e for e in kf if e['status'] == 'fixed']:
    out.append('| %s | `%s` | %s |' % (e['property'], e['commit'], cell(e['line'].split(e['commit'], 1)[1].strip() + (' — e.g. `' + e['example'] + '`' if e.get('example') else ''))))
out += ['', '### 5.2 Known findings (*generated*)', '',
        'Genuine defects that are recorded rather than repaired, because the repair is not small (failure atomicity of storage',
        'sharing, the lazily filled function registry, missing text emitters) or because the repository\'s own tests pin the behaviour.',
        'The exact failing cases are in `known/<ID>.cases`; a listed key on any other case is a violation.', '',
        '| property | root cause | keys | exact cases |', '|---|---|---|---|']
by = collections.OrderedDict()
for e in kf:
    if e['status'] == 'known': by.setdefault((e['property'], e['what_fails']), []).append(e)
for (pid, w), es in sorted(by.items(), key=lambda x: x[0][0]):
    out.append('| %s | %s | %d | %d |' % (pid, cell(w), len(es), sum(cases[e['key']] for e in es)))
out += ['']
tail = open(V + '/tools/design_tail.md').read()
st = ['| change | needs, to show | reported by |', '|---|---|---|']
for m in seeds:
    st.append('| %s | %s | %s |' % (m['name'], cell(m.get('needs_to_manifest', ''))[:260], cell(m.get('detected_by', ''))[:420]))
tail = tail.replace('@@SEEDS@@', '\n'.join(st))
out += [tail.rstrip('\n'), '', '## 8. Cost (*generated* from the last logged runs)', '',
        '`setup_cmd` = `./setup.sh` (builds `mc` and `mcfs` once). Quick tiers are what runs on every change (each under a minute on 16 cores',
        'after the incremental rebuild); thorough tiers deepen the same enumeration (longer chains, deeper histories, more files, all documents).', '',
        '| check | quick: evaluations | quick: wall | thorough: evaluations | thorough: wall |', '|---|---|---|---|---|']
for id in sorted(checks):
    q, t = parse_log(logline(id, 'quick')), parse_log(logline(id, 'thorough'))
    out.append('| %s | %s | %s | %s | %s |' % (id, q[0] if q else '-', (q[6] + ' s') if q else '-', t[0] if t else 'not run in this round', (t[6] + ' s') if t else '-'))
out += ['']
open(V + '/DESIGN.md', 'w').write('\n'.join(out))
print('DESIGN.md', len(out), 'lines')
