#!/bin/sh
# tools/r4_eval.sh <ID>   (ID like C01)  — confirm both round-4 changes of one property in the author's worktree (demo without / with,
# unedited suite with; runs in parallel with other properties), then - under a lock - run the property's quick check against each in the
# isolated scratch copy (never touches /repo).
ID=$1; A=r4$ID; OUT=/tmp/wt/out/$A
for M in m1 m2; do
  [ -f $OUT/$M/patch.diff ] || { echo "$A $M: no patch" >> $OUT/eval.log; continue; }
  echo "=== $A $M verify" >> $OUT/eval.log
  WT_BASE=/tmp/wt OUT_BASE=/tmp/wt/out /verif/tools/verify_seed.sh $A $M >> $OUT/eval.log 2>&1
done
exec 9>/tmp/wt/eval.lock; flock 9
for M in m1 m2; do
  [ -f $OUT/$M/patch.diff ] || continue
  echo "=== $A $M check $ID quick" >> $OUT/eval.log
  /verif/tools/try_patch_isolated.sh $OUT/$M/patch.diff $ID quick 14 >> $OUT/eval.log 2>&1
  cp /tmp/wt/try_patch.out $OUT/$M/check_quick.out
done
echo "=== done" >> $OUT/eval.log
