#!/usr/bin/env python3
"""maintenance (never run by a check): add one 'known' entry per finding key found in target/findings/<ID>.*.tsv
usage: tools/add_known.py <ID> <key-prefix-filter> "<what fails (root cause)>" """
import json, sys, glob, collections
id, flt, what = sys.argv[1], sys.argv[2], sys.argv[3]
kf = json.load(open('/verif/known_findings.json'))
have = {(e['property'], e['key']) for e in kf['findings']}
keys = collections.OrderedDict()
for f in sorted(glob.glob('/verif/target/findings/%s.*.tsv' % id)):
    for l in open(f):
        p = l.rstrip('\n').split('\t')
        if len(p) >= 3 and p[0].startswith(flt) and p[0] not in keys: keys[p[0]] = (p[1], p[2])
n = 0
for k, (case, detail) in keys.items():
    if (id, k) in have: continue
    kf['findings'].append({"property": id, "key": k, "status": "known", "what_fails": what, "example": case + "  ::  " + detail[:200],
        "line": "KNOWN-FINDING: property=%s %s %s" % (id, k, what)})
    n += 1
json.dump(kf, open('/verif/known_findings.json', 'w'), indent=1, ensure_ascii=False)
print("added", n, "entries")
