import sys
# usage: edit.py file  (reads pairs from /tmp/edit_pairs.py as list PAIRS)
p=sys.argv[1]
exec(open(sys.argv[2]).read())
s=open(p,newline='').read()
crlf = '\r\n' in s
for old,new in PAIRS:
    if crlf:
        old=old.replace('\n','\r\n'); new=new.replace('\n','\r\n')
    assert s.count(old)==1, (s.count(old), old[:60])
    s=s.replace(old,new)
open(p,'w',newline='').write(s)
