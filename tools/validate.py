#!/usr/bin/env python3-vt
import json, jsonschema, glob, sys
jsonschema.validate(json.load(open('/verif/MANIFEST.json')), json.load(open('/root/.vp/MANIFEST.schema.json')))
es = json.load(open('/root/.vp/EVIDENCE.schema.json'))
m = json.load(open('/verif/MANIFEST.json'))
for c in m['checks']:
    f = c['evidence_file']
    try:
        jsonschema.validate(json.load(open(f)), es); print("ok", f)
    except FileNotFoundError:
        print("MISSING", f)
print("manifest valid")
