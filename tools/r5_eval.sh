#!/bin/sh
# tools/r5_eval.sh <ID>  — round 5 (one change per property): confirm the change in the author's worktree (demo without / with, unedited
# suite with), then - under a lock - apply it to /repo, run the property's quick check with the warm harness build, and undo it at once.
ID=$1; A=r5$ID; OUT=/tmp/wt/out/$A; M=m1
[ -f $OUT/$M/patch.diff ] || { echo "$A $M: no patch" >> $OUT/eval.log; exit 1; }
echo "=== $A $M verify" >> $OUT/eval.log
VS_DEFAULT_PROFILE=1 WT_BASE=/tmp/wt OUT_BASE=/tmp/wt/out /verif/tools/verify_seed.sh $A $M >> $OUT/eval.log 2>&1
exec 9>/tmp/wt/eval.lock; flock 9
echo "=== $A $M check $ID quick" >> $OUT/eval.log
git -C /repo apply --check $OUT/$M/patch.diff || { echo "patch does not apply to /repo" >> $OUT/eval.log; exit 2; }
cp /verif/evidence/$ID.json /tmp/wt/$ID.evidence.keep
git -C /repo apply $OUT/$M/patch.diff
MC_WORKERS=12 /verif/check $ID quick > $OUT/$M/check_quick.out 2>&1; echo "exit=$?" >> $OUT/$M/check_quick.out
git -C /repo checkout -- .
cp /tmp/wt/$ID.evidence.keep /verif/evidence/$ID.json
grep -E "VIOLATION|KNOWN|^$ID |MACHINERY|VACUOUS|^exit=" $OUT/$M/check_quick.out | cut -c1-300 | head -14 >> $OUT/eval.log
echo "=== done" >> $OUT/eval.log
