fn main() { mc::cli::main(); }
