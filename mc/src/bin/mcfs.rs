fn main() { mc::hello(); }
