use crate::checks;
use crate::pool::*;
use crate::report::Report;
use std::io::Read;

fn usage() -> ! {
  eprintln!("usage: mc check <ID> <quick|thorough> | mc worker <ID> <tier> | mc replay <file> | mc probe | mc bless <ID>");
  std::process::exit(2)
}

pub fn main() {
  let args: Vec<String> = std::env::args().collect();
  if args.len() < 2 { usage(); }
  match args[1].as_str() {
    "worker" => {
      let tier = Tier::parse(&args[3]);
      let mut c = checks::make(&args[2], tier).unwrap_or_else(|| usage());
      worker_loop(c.as_mut());
    }
    "check" => {
      let id = args[2].clone();
      let tier = Tier::parse(args.get(3).map(|s| s.as_str()).unwrap_or("quick"));
      let mut c = checks::make(&id, tier).unwrap_or_else(|| { eprintln!("no such check {}", id); std::process::exit(2) });
      let workers = std::env::var("MC_WORKERS").ok().and_then(|s| s.parse().ok()).unwrap_or(16usize);
      let cfg = PoolCfg { id: id.clone(), tier, workers, unit_budget: c.unit_budget(tier), mem_bytes: 4 << 30 };
      let mut rep = Report::new(&id, tier, c.level());
      c.drive(tier, &cfg, &mut rep);
      std::process::exit(rep.finish());
    }
    "replay" => {
      let s = std::fs::read_to_string(&args[2]).expect("read replay file");
      let v: serde_json::Value = serde_json::from_str(&s).expect("json");
      let id = v["property"].as_str().unwrap().to_string();
      let tier = Tier::parse(v["tier"].as_str().unwrap_or("quick"));
      let c = checks::make(&id, tier).unwrap_or_else(|| usage());
      let cfg = PoolCfg { id: id.clone(), tier, workers: 1, unit_budget: c.unit_budget(tier) * 3, mem_bytes: 4 << 30 };
      let unit = v["unit"].as_u64().unwrap();
      let job = Job { payload: v["payload"].as_str().unwrap_or("").to_string(), lo: unit, hi: unit + 1 };
      println!("replaying {} key={} case={}", id, v["key"], v["case"]);
      let mut n = 0;
      run_jobs(&cfg, vec![job], &mut |ev| match ev {
        Event::Done(_, o) => { for f in o.failures { n += 1; println!("FAIL key={} case={} :: {}", f.key, f.case, f.detail); } }
        Event::Crash(_, u, k) => { n += 1; println!("CRASH unit={} {:?}", u, k); }
        Event::Flaky(_, u, k) => println!("flaky unit={} {:?}", u, k),
        Event::Machinery(m) => println!("machinery: {}", m),
      });
      println!("{} failing observation(s) reproduced", n);
      std::process::exit(if n > 0 { 1 } else { 0 });
    }
    "docprobe" => {
      // documents separated by lines containing only "---": bindings of the unnamed program and of every fence namespace
      let mut s = String::new();
      std::io::stdin().read_to_string(&mut s).unwrap();
      crate::subject::silence_panics();
      for doc in s.split("\n---\n") {
        let doc = doc.trim_matches('\n');
        if doc.is_empty() { continue; }
        println!("=== {:?}", doc);
        let tree = match mech_syntax::parser::parse(doc) { Ok(t) => t, Err(_) => { println!("  does not parse"); continue; } };
        let mut i = mech_interpreter::Interpreter::new(0);
        let r = std::panic::catch_unwind(std::panic::AssertUnwindSafe(|| i.interpret(&tree)));
        println!("  result: {}", match &r { Ok(Ok(v)) => crate::canon::canon(v).short(), Ok(Err(e)) => format!("Err({})", e.kind_name()), Err(_) => "PANIC".into() });
        println!("  unnamed: {:?}", crate::checks::c10::snapshot_of(&i).iter().map(|(n, m, c)| format!("{}{}={}", if *m { "~" } else { "" }, n, c.short())).collect::<Vec<_>>());
        for (id, sub) in i.sub_interpreters.borrow().iter() { println!("  namespace {}: {:?}", id, crate::checks::c10::snapshot_of(sub).iter().map(|(n, m, c)| format!("{}{}={}", if *m { "~" } else { "" }, n, c.short())).collect::<Vec<_>>()); }
      }
    }
    "fnlist" => {
      // every function compiler registered by the standard library (the names a call `name(args)` resolves to)
      let mut v: Vec<&'static str> = inventory::iter::<mech_core::FunctionCompilerDescriptor>.into_iter().map(|d| d.name).collect();
      v.sort(); v.dedup();
      for n in v { println!("{}", n); }
    }
    "probe" => {
      // programs separated by lines containing only "---"; each run in a fresh session, statement blocks separated by ";;" are interpreted one after another
      let mut s = String::new();
      std::io::stdin().read_to_string(&mut s).unwrap();
      crate::subject::silence_panics();
      for prog in s.split("\n---\n") {
        let prog = prog.trim_matches('\n');
        if prog.is_empty() { continue; }
        let mut sess = crate::subject::Session::new();
        for part in prog.split(";;") {
          let part = part.trim_matches('\n');
          let o = sess.run(part);
          println!("{:60} => {}   [{}]", part.replace('\n', "\\n"), o.short(), sess.last_step_name().unwrap_or_default());
        }
        for (n, m, c) in sess.snapshot() { println!("      {}{} = {}", if m { "~" } else { "" }, n, c.short()); }
      }
    }
    "c08at" => {
      // debugging aid: print the corpus programs whose first line starts with the given text (tier thorough)
      let ps = crate::checks::c08::program_corpus(Tier::Thorough);
      for (i, (src, fam)) in ps.iter().enumerate() { if src.starts_with(args[2].as_str()) { let lo = (i / 16) * 16; for j in lo..(lo + 16).min(ps.len()) { println!("#{} [{}] {}", j, ps[j].1, ps[j].0.chars().take(100).collect::<String>().replace('\n', " ⏎ ")); } let _ = fam; break; } }
    }
    "fmtprobe" => {
      // programs separated by lines containing only "---": formatted text and the first differing lines of the two normalised trees
      let mut s = String::new();
      std::io::stdin().read_to_string(&mut s).unwrap();
      crate::subject::silence_panics();
      for prog in s.split("\n---\n") {
        let prog = prog.trim_matches('\n');
        if prog.is_empty() { continue; }
        println!("=== {:?}", prog);
        let t1 = match mech_syntax::parser::parse(prog) { Ok(t) => t, Err(_) => { println!("  does not parse"); continue; } };
        let f1 = match std::panic::catch_unwind(std::panic::AssertUnwindSafe(|| mech_syntax::formatter::Formatter::new().format(&t1))) { Ok(f) => f, Err(_) => { println!("  formatter panics"); continue; } };
        println!("  formatted: {:?}", f1);
        let t2 = match mech_syntax::parser::parse(&f1) { Ok(t) => t, Err(_) => { println!("  formatted text does not parse"); continue; } };
        let (a, b) = (crate::checks::c08::shape_of(&t1), crate::checks::c08::shape_of(&t2));
        if a == b { println!("  trees equal"); } else {
          let (al, bl): (Vec<&str>, Vec<&str>) = (a.lines().collect(), b.lines().collect());
          let k = al.iter().zip(bl.iter()).take_while(|(x, y)| x == y).count();
          let from = k.saturating_sub(6);
          println!("  --- first tree (lines {}..)", from);
          for l in al.iter().skip(from).take(16) { println!("    {}", l); }
          println!("  --- second tree");
          for l in bl.iter().skip(from).take(16) { println!("    {}", l); }
        }
      }
    }
    "fsmtrace" => {
      let mut src = String::new();
      std::io::stdin().read_to_string(&mut src).unwrap();
      let tree = mech_syntax::parser::parse(&src).expect("parse");
      let mut i = mech_interpreter::Interpreter::new(0);
      i.set_trace_enabled(true);
      i.set_trace_to_stdout(false);
      if let Some(ms) = args.get(2).and_then(|x| x.parse::<usize>().ok()) { i.max_steps = ms; }
      let r = i.interpret(&tree);
      println!("result: {:?}", r.as_ref().map(|v| crate::canon::canon(v).short()).map_err(|e| e.kind_name()));
      for e in i.trace_events() { println!("{:?} | {:?} | {}", e.channel, e.label, e.message); }
    }
    "bless" => {
      // maintenance only (never called by a check): rebuild known/<ID>.cases from the last findings dumps,
      // restricted to keys listed as "known" in known_findings.json
      let id = &args[2];
      let known = crate::report::Known::load(id);
      let mut out = std::collections::BTreeSet::new();
      // cases already listed stay listed unless `--prune` is given (a dump of one tier alone must not drop the other tier's cases)
      if !args.iter().any(|a| a == "--prune") {
        if let Ok(s) = std::fs::read_to_string(format!("{}/known/{}.cases", crate::report::verif_dir(), id)) {
          for l in s.lines() { let k = l.split('\t').next().unwrap_or(""); if known.entries.iter().any(|e| e.key == k && e.status == "known") { out.insert(l.to_string()); } }
        }
      }
      for tier in ["quick", "thorough"] {
        if let Ok(s) = std::fs::read_to_string(format!("{}/target/findings/{}.{}.tsv", crate::report::verif_dir(), id, tier)) {
          for l in s.lines() {
            let mut it = l.splitn(3, '\t');
            let (k, c) = (it.next().unwrap_or(""), it.next().unwrap_or(""));
            if known.entries.iter().any(|e| e.key == k && e.status == "known") { out.insert(format!("{}\t{}", k, c)); }
          }
        }
      }
      std::fs::create_dir_all(format!("{}/known", crate::report::verif_dir())).unwrap();
      let body: String = out.iter().map(|l| format!("{}\n", l)).collect();
      std::fs::write(format!("{}/known/{}.cases", crate::report::verif_dir(), id), body).unwrap();
      println!("blessed {} cases for {}", out.len(), id);
    }
    _ => usage(),
  }
}
