#![allow(dead_code, unused_variables, unused_imports, unused_mut)]
pub mod canon;
pub mod subject;
pub mod ctx;
pub mod pool;
pub mod report;
pub mod checks;
pub mod refnum;
pub mod cli;
