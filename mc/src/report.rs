//! Aggregation of worker results, known-findings matching, replay files, evidence, exit code.
use crate::pool::*;
use serde::{Deserialize, Serialize};
use serde_json::json;
use std::collections::{BTreeMap, BTreeSet};
use std::time::Instant;

pub fn verif_dir() -> String { std::env::var("MC_VERIF_DIR").unwrap_or_else(|_| "/verif".to_string()) }

#[derive(Clone, Debug, Serialize, Deserialize)]
pub struct KnownEntry {
  pub property: String,
  pub key: String,
  pub what_fails: String,
  #[serde(default)]
  pub example: String,
  /// "known" | "fixed"
  pub status: String,
  #[serde(default)]
  pub commit: String,
}

#[derive(Default, Serialize, Deserialize)]
pub struct KnownFile {
  pub findings: Vec<KnownEntry>,
}

pub struct Known {
  pub entries: Vec<KnownEntry>,
  /// (key, case) pairs listed for this property
  pub cases: BTreeSet<(String, String)>,
}

impl Known {
  pub fn load(id: &str) -> Known {
    let mut entries = vec![];
    if let Ok(s) = std::fs::read_to_string(format!("{}/known_findings.json", verif_dir())) {
      if let Ok(f) = serde_json::from_str::<KnownFile>(&s) {
        entries = f.findings.into_iter().filter(|e| e.property == id).collect();
      }
    }
    let mut cases = BTreeSet::new();
    if let Ok(s) = std::fs::read_to_string(format!("{}/known/{}.cases", verif_dir(), id)) {
      for l in s.lines() {
        if let Some((k, c)) = l.split_once('\t') { cases.insert((k.to_string(), c.to_string())); }
      }
    }
    Known { entries, cases }
  }
  pub fn is_known(&self, key: &str, case: &str) -> bool {
    self.entries.iter().any(|e| e.key == key && e.status == "known") && self.cases.contains(&(key.to_string(), case.to_string()))
  }
}

pub struct Report {
  pub id: String,
  pub tier: Tier,
  pub level: String,
  pub start: Instant,
  pub out: WorkerOut,
  pub machinery: Vec<String>,
  pub flaky: u64,
  pub rule: String,
  pub assumptions: Vec<String>,
  pub extra_cov: BTreeMap<String, serde_json::Value>,
  pub exhaustive: bool,
  pub vacuity: Vec<String>,
  /// (payload, unit) -> (locus, case) used to name a hang/abort by the case that caused it
  pub describe: Option<Box<dyn Fn(&str, u64) -> (String, String)>>,
}

impl Report {
  pub fn new(id: &str, tier: Tier, level: &str) -> Report {
    Report { id: id.to_string(), tier, level: level.to_string(), start: Instant::now(), out: WorkerOut::default(), machinery: vec![], flaky: 0,
      rule: String::new(), assumptions: vec![], extra_cov: BTreeMap::new(), exhaustive: true, vacuity: vec![], describe: None }
  }

  /// default sink for enumeration checks
  pub fn absorb(&mut self, ev: Event) {
    match ev {
      Event::Done(_j, o) => self.out.merge(o),
      Event::Crash(j, u, kind) => {
        let (mut locus, mut case) = match &self.describe { Some(d) => d(&j.payload, u), None => ("unit".to_string(), format!("payload={} unit={}", j.payload, u)) };
        if let CrashKind::HangOn(what) = &kind { case = what.clone(); locus = format!("{}", locus); }
        let key = format!("{}|{}|{}", self.id, kind.class(), locus);
        self.out.failures.push(Failure { key, case, detail: format!("worker {:?} while running this unit alone (confirmed twice)", kind), payload: j.payload.clone(), unit: u });
        self.out.evaluations += 1;
      }
      // a unit that ran out of its wall budget next to 15 busy siblings and then completed alone, within three times the budget, was slow, not hung:
      // its results (from the run alone) are used and the retry is recorded. A worker that died and did not die again alone stays a machinery error.
      Event::Flaky(j, u, kind) => match kind {
        CrashKind::Hang | CrashKind::HangOn(_) => { *self.out.counters.entry("units_retried_alone_after_exceeding_the_budget".into()).or_insert(0) += 1; let _ = (j, u); }
        _ => { self.flaky += 1; self.machinery.push(format!("flaky crash {:?} at payload={} unit={} (did not reproduce alone)", kind, j.payload, u)); }
      },
      Event::Machinery(m) => self.machinery.push(m),
    }
  }

  pub fn cov(&mut self, k: &str, v: serde_json::Value) { self.extra_cov.insert(k.to_string(), v); }

  /// Decide, print, write evidence and replays. Returns the process exit code.
  pub fn finish(&mut self) -> i32 {
    let known = Known::load(&self.id);
    let seed: i64 = std::env::var("VERIF_SEED").ok().and_then(|s| s.parse().ok()).unwrap_or(0);
    // the same failing case may be reported by several workers (shared scalar sub-cases): de-duplicate
    {
      let mut seen = BTreeSet::new();
      self.out.failures.retain(|f| seen.insert((f.key.clone(), f.case.clone())));
      self.out.failures.sort_by(|a, b| (&a.key, a.unit, &a.case).cmp(&(&b.key, b.unit, &b.case)));
    }
    // group failures by key
    let mut by_key: BTreeMap<String, Vec<&Failure>> = BTreeMap::new();
    for f in &self.out.failures { by_key.entry(f.key.clone()).or_default().push(f); }
    // dump for maintenance tooling (never read back by a check)
    let _ = std::fs::create_dir_all(format!("{}/target/findings", verif_dir()));
    {
      let mut s = String::new();
      let mut seen = BTreeSet::new();
      for f in &self.out.failures {
        if seen.insert((f.key.clone(), f.case.clone())) { s.push_str(&format!("{}\t{}\t{}\n", f.key, f.case.replace('\t', " ").replace('\n', "\\n"), f.detail.replace('\t', " ").replace('\n', "\\n"))); }
      }
      let _ = std::fs::write(format!("{}/target/findings/{}.{}.tsv", verif_dir(), self.id, self.tier.name()), s);
    }
    let mut violations = 0u64;
    let mut known_hits = 0u64;
    let mut lines = vec![];
    let mut known_keys = vec![];
    let mut new_keys = vec![];
    for (key, fs) in &by_key {
      let mut unknown: Vec<&&Failure> = vec![];
      let mut nk = 0;
      for f in fs {
        if known.is_known(key, &f.case.replace('\t', " ").replace('\n', "\\n")) { nk += 1; } else { unknown.push(f); }
      }
      if nk > 0 {
        known_hits += nk as u64;
        let what = known.entries.iter().find(|e| &e.key == key).map(|e| e.what_fails.clone()).unwrap_or_default();
        lines.push(format!("KNOWN-FINDING: property={} {} {} ({} cases)", self.id, key, what, nk));
        known_keys.push(json!({"key": key, "cases": nk}));
      }
      if !unknown.is_empty() {
        violations += unknown.len() as u64;
        let first = unknown[0];
        let dir = format!("{}/replays/{}", verif_dir(), self.id);
        let _ = std::fs::create_dir_all(&dir);
        let fname: String = key.chars().map(|c| if c.is_alphanumeric() || c == '-' || c == '_' || c == '.' { c } else { '_' }).take(120).collect();
        let path = format!("{}/{}.json", dir, fname);
        let body = json!({"property": self.id, "tier": self.tier.name(), "key": key, "case": first.case, "detail": first.detail,
          "payload": first.payload, "unit": first.unit, "cases_with_this_key": unknown.len(),
          "more_cases": unknown.iter().skip(1).take(5).map(|f| f.case.clone()).collect::<Vec<_>>()});
        let _ = std::fs::write(&path, serde_json::to_string_pretty(&body).unwrap());
        lines.push(format!("VIOLATION property={} replay={}", self.id, path));
        lines.push(format!("  key={} cases={} first: {} :: {}", key, unknown.len(), first.case, first.detail));
        new_keys.push(json!({"key": key, "cases": unknown.len(), "first": first.case}));
      }
    }
    for l in &lines { println!("{}", l); }
    // evidence
    let mut samples = self.out.samples.clone();
    // the evidence schema wants at least one real case: fall back on the first failing observation, and say so if there is none
    if samples.is_empty() { if let Some(f) = self.out.failures.first() { samples.push(json!({"case": f.case, "observed": f.detail})); } else { self.vacuity.push("no sample case was recorded by any unit".into()); } }
    if !samples.is_empty() { let r = (seed.unsigned_abs() as usize) % samples.len(); samples.rotate_left(r); samples.truncate(6); }
    let mut cov = serde_json::Map::new();
    cov.insert("evaluations".into(), json!(self.out.evaluations));
    cov.insert("distinct_nontrivial".into(), json!(self.out.nontrivial));
    cov.insert("rule".into(), json!(self.rule));
    cov.insert("samples".into(), json!(samples));
    cov.insert("exhaustive".into(), json!(self.exhaustive));
    cov.insert("counters".into(), json!(self.out.counters));
    let mut setsizes = serde_json::Map::new();
    for (k, v) in &self.out.sets {
      setsizes.insert(k.clone(), json!({"distinct": v.len(), "items": v.iter().take(400).collect::<Vec<_>>()}));
    }
    cov.insert("coverage_sets".into(), json!(setsizes));
    cov.insert("known_findings_hit".into(), json!(known_keys));
    cov.insert("unlisted_violation_keys".into(), json!(new_keys));
    cov.insert("flaky_crashes".into(), json!(self.flaky));
    for (k, v) in &self.extra_cov { cov.insert(k.clone(), v.clone()); }
    let ev = json!({
      "property_id": self.id, "tier": self.tier.name(), "seed": seed, "level": self.level,
      "coverage": cov, "assumptions": self.assumptions, "wall_s": self.start.elapsed().as_secs_f64(),
      "violations": violations, "known_finding_cases": known_hits,
      "machinery_errors": self.machinery, "vacuity": self.vacuity,
    });
    let _ = std::fs::create_dir_all(format!("{}/evidence", verif_dir()));
    let _ = std::fs::write(format!("{}/evidence/{}.json", verif_dir(), self.id), serde_json::to_string_pretty(&ev).unwrap());
    println!("{} {}: evaluations={} nontrivial={} failures={} (known {} / unlisted {}) keys={} wall={:.1}s",
      self.id, self.tier.name(), self.out.evaluations, self.out.nontrivial, self.out.failures.len(), known_hits, violations, by_key.len(), self.start.elapsed().as_secs_f64());
    if violations > 0 { return 1; }
    if !self.machinery.is_empty() {
      for m in self.machinery.iter().take(10) { eprintln!("MACHINERY: {}", m); }
      return 2;
    }
    if !self.vacuity.is_empty() {
      for m in &self.vacuity { eprintln!("VACUOUS: {}", m); }
      return 2;
    }
    0
  }
}
