//! Thin, panic-guarded access to the subject's public entry points.
use crate::canon::{canon, Canon};
use mech_core::nodes::Program;
use mech_core::*;
use mech_interpreter::Interpreter;
use mech_syntax::parser;
use serde::{Deserialize, Serialize};
use std::cell::RefCell;
use std::collections::HashMap;
use std::panic::{catch_unwind, AssertUnwindSafe};
use std::rc::Rc;

#[derive(Clone, Debug, PartialEq, Eq, Hash, PartialOrd, Ord, Serialize, Deserialize)]
pub enum Outcome {
  Value(Canon),
  Error(String),
  ParseError,
  Panic(String),
}

impl Outcome {
  pub fn is_value(&self) -> bool { matches!(self, Outcome::Value(_)) }
  pub fn is_err(&self) -> bool { matches!(self, Outcome::Error(_) | Outcome::ParseError) }
  pub fn value(&self) -> Option<&Canon> { if let Outcome::Value(c) = self { Some(c) } else { None } }
  pub fn short(&self) -> String {
    match self {
      Outcome::Value(c) => c.short(),
      Outcome::Error(e) => format!("Err({})", e),
      Outcome::ParseError => "ParseError".into(),
      Outcome::Panic(m) => format!("PANIC({})", m),
    }
  }
}

pub fn panic_msg(e: Box<dyn std::any::Any + Send>) -> String {
  if let Some(s) = e.downcast_ref::<&'static str>() { s.to_string() }
  else if let Some(s) = e.downcast_ref::<String>() { s.clone() }
  else { "non-string panic".to_string() }
}

pub fn silence_panics() {
  std::panic::set_hook(Box::new(|_| {}));
}

thread_local! {
  static TREES: RefCell<HashMap<String, Option<Rc<Program>>>> = RefCell::new(HashMap::new());
}

/// Parse once per distinct text (per worker process). None = parse error (or parser panic).
pub fn parse_cached(src: &str) -> Option<Rc<Program>> {
  if let Some(t) = TREES.with(|t| t.borrow().get(src).cloned()) { return t; }
  let r = catch_unwind(AssertUnwindSafe(|| parser::parse(src)));
  let t = match r { Ok(Ok(tree)) => Some(Rc::new(tree)), _ => None };
  TREES.with(|m| {
    let mut m = m.borrow_mut();
    if m.len() > 200_000 { m.clear(); }
    m.insert(src.to_string(), t.clone());
  });
  t
}

pub fn parse_uncached(src: &str) -> Result<Program, Result<String, String>> {
  match catch_unwind(AssertUnwindSafe(|| parser::parse(src))) {
    Ok(Ok(t)) => Ok(t),
    Ok(Err(e)) => Err(Ok(format!("{:?}", e.kind_name()))),
    Err(p) => Err(Err(panic_msg(p))),
  }
}

pub struct Session {
  pub intrp: Interpreter,
}

impl Session {
  pub fn new() -> Session {
    Session { intrp: Interpreter::new(0) }
  }

  /// interpret one parsed program; `interpret` guards panics itself, the outer guard catches the rest.
  pub fn run_tree(&mut self, tree: &Program) -> Outcome {
    let r = catch_unwind(AssertUnwindSafe(|| self.intrp.interpret(tree)));
    match r {
      Ok(Ok(v)) => Outcome::Value(canon(&v)),
      Ok(Err(e)) => Outcome::Error(e.kind_name()),
      Err(p) => Outcome::Panic(panic_msg(p)),
    }
  }

  pub fn run(&mut self, src: &str) -> Outcome {
    match parse_cached(src) {
      Some(t) => self.run_tree(&t),
      None => Outcome::ParseError,
    }
  }

  pub fn run_value(&mut self, src: &str) -> Result<Value, Outcome> {
    match parse_cached(src) {
      Some(t) => {
        let r = catch_unwind(AssertUnwindSafe(|| self.intrp.interpret(&t)));
        match r {
          Ok(Ok(v)) => Ok(v),
          Ok(Err(e)) => Err(Outcome::Error(e.kind_name())),
          Err(p) => Err(Outcome::Panic(panic_msg(p))),
        }
      }
      None => Err(Outcome::ParseError),
    }
  }

  /// value of a symbol (through the symbol table, not by evaluating anything)
  pub fn get(&self, name: &str) -> Option<Canon> {
    let id = hash_str(name);
    let st = self.intrp.symbols();
    let st = st.borrow();
    st.get(id).map(|c| canon(&c.borrow()))
  }

  pub fn is_mutable(&self, name: &str) -> bool {
    let id = hash_str(name);
    let st = self.intrp.symbols();
    let st = st.borrow();
    st.get_mutable(id).is_some()
  }

  /// sorted (name, mutable, canon) of every symbol except `ans`
  pub fn snapshot(&self) -> Vec<(String, bool, Canon)> {
    let st = self.intrp.symbols();
    let st = st.borrow();
    let dict = st.dictionary.borrow();
    let mut out = vec![];
    for (id, cell) in st.symbols.iter() {
      let name = dict.get(id).cloned().unwrap_or_else(|| format!("#{}", id));
      if name == "ans" { continue; }
      out.push((name, st.mutable_variables.contains_key(id), canon(&cell.borrow())));
    }
    out.sort();
    out
  }

  /// first line of to_string() of the last plan step (generated struct name)
  pub fn last_step_name(&self) -> Option<String> {
    let plan = self.intrp.plan();
    let p = plan.borrow();
    p.last().map(|s| step_name(&s.to_string()))
  }

  pub fn plan_step_names(&self) -> Vec<String> {
    let plan = self.intrp.plan();
    let p = plan.borrow();
    p.iter().map(|s| step_name(&s.to_string())).collect()
  }
}

pub fn step_name(s: &str) -> String {
  let l = s.lines().next().unwrap_or("").trim();
  // strip addresses / payload: keep leading identifier characters
  let mut out = String::new();
  for ch in l.chars() {
    if ch.is_alphanumeric() || ch == '_' || ch == ':' || ch == '<' || ch == '>' || ch == ',' { out.push(ch); } else { break; }
  }
  if out.is_empty() { l.chars().take(40).collect() } else { out }
}

/// stable 64-bit FNV-1a (process independent, unlike std's RandomState)
pub fn fnv(s: &[u8]) -> u64 {
  let mut h: u64 = 0xcbf29ce484222325;
  for b in s { h ^= *b as u64; h = h.wrapping_mul(0x100000001b3); }
  h
}
