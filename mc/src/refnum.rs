//! Boring reference arithmetic for the scalar kinds (exact integers in i128/u128, the machine's own
//! IEEE operations for floats, gcd-normalised fractions for rationals, Boolean algebra).
use crate::canon::{f32_text, f64_text, Canon};

pub const INT_KINDS: [&str; 10] = ["u8", "u16", "u32", "u64", "u128", "i8", "i16", "i32", "i64", "i128"];
pub const NUM_KINDS: [&str; 14] = ["u8", "u16", "u32", "u64", "u128", "i8", "i16", "i32", "i64", "i128", "f32", "f64", "r64", "c64"];
pub const ALL_KINDS: [&str; 16] = ["u8", "u16", "u32", "u64", "u128", "i8", "i16", "i32", "i64", "i128", "f32", "f64", "r64", "c64", "bool", "string"];

pub fn is_int(k: &str) -> bool { INT_KINDS.contains(&k) }
pub fn is_unsigned(k: &str) -> bool { k.starts_with('u') }
pub fn is_signed_int(k: &str) -> bool { k.starts_with('i') && is_int(k) }
pub fn is_float(k: &str) -> bool { k == "f32" || k == "f64" }
pub fn bits(k: &str) -> u32 { k[1..].parse().unwrap_or(64) }

/// wide integer: sign + magnitude so that both i128::MIN and u128::MAX fit
#[derive(Clone, Copy, Debug, PartialEq, Eq)]
pub struct Wide { pub neg: bool, pub mag: u128 }

impl Wide {
  pub fn from_i128(v: i128) -> Wide { Wide { neg: v < 0, mag: v.unsigned_abs() } }
  pub fn from_u128(v: u128) -> Wide { Wide { neg: false, mag: v } }
  pub fn parse(s: &str) -> Option<Wide> {
    let s = s.trim();
    let (neg, d) = if let Some(r) = s.strip_prefix('-') { (true, r) } else { (false, s) };
    let mag: u128 = d.parse().ok()?;
    Some(Wide { neg: neg && mag != 0, mag })
  }
  pub fn text(&self) -> String { if self.neg && self.mag != 0 { format!("-{}", self.mag) } else { format!("{}", self.mag) } }
  pub fn is_zero(&self) -> bool { self.mag == 0 }
  pub fn fits(&self, kind: &str) -> bool {
    let b = bits(kind);
    if is_unsigned(kind) {
      if self.neg && self.mag != 0 { return false; }
      if b == 128 { true } else { self.mag <= (1u128 << b) - 1 }
    } else {
      let maxpos: u128 = (1u128 << (b - 1)) - 1;
      if self.neg { self.mag <= maxpos + 1 } else { self.mag <= maxpos }
    }
  }
  pub fn cmp(&self, o: &Wide) -> std::cmp::Ordering {
    use std::cmp::Ordering::*;
    match (self.neg && self.mag != 0, o.neg && o.mag != 0) {
      (false, false) => self.mag.cmp(&o.mag),
      (true, true) => o.mag.cmp(&self.mag),
      (true, false) => Less,
      (false, true) => Greater,
    }
  }
  pub fn negate(&self) -> Wide { Wide { neg: !self.neg && self.mag != 0, mag: self.mag } }
  /// None = magnitude overflowed u128 (certainly unrepresentable)
  pub fn add(&self, o: &Wide) -> Option<Wide> {
    if self.neg == o.neg { Some(Wide { neg: self.neg, mag: self.mag.checked_add(o.mag)? }) }
    else if self.mag >= o.mag { Some(Wide { neg: self.neg && self.mag != o.mag, mag: self.mag - o.mag }) }
    else { Some(Wide { neg: o.neg, mag: o.mag - self.mag }) }
  }
  pub fn sub(&self, o: &Wide) -> Option<Wide> { self.add(&o.negate()) }
  pub fn mul(&self, o: &Wide) -> Option<Wide> {
    let mag = self.mag.checked_mul(o.mag)?;
    Some(Wide { neg: (self.neg != o.neg) && mag != 0, mag })
  }
  pub fn pow(&self, e: u32) -> Option<Wide> {
    let mut r = Wide { neg: false, mag: 1 };
    for _ in 0..e { r = r.mul(self)?; }
    Some(r)
  }
  /// truncated quotient and remainder
  pub fn divrem_trunc(&self, o: &Wide) -> Option<(Wide, Wide)> {
    if o.mag == 0 { return None; }
    let q = self.mag / o.mag;
    let r = self.mag % o.mag;
    Some((Wide { neg: (self.neg != o.neg) && q != 0, mag: q }, Wide { neg: self.neg && r != 0, mag: r }))
  }
}

pub fn kind_min(kind: &str) -> Wide {
  if is_unsigned(kind) { Wide { neg: false, mag: 0 } } else { Wide { neg: true, mag: 1u128 << (bits(kind) - 1) } }
}
pub fn kind_max(kind: &str) -> Wide {
  let b = bits(kind);
  if is_unsigned(kind) { Wide { neg: false, mag: if b == 128 { u128::MAX } else { (1u128 << b) - 1 } } }
  else { Wide { neg: false, mag: (1u128 << (b - 1)) - 1 } }
}

fn gcd(a: u128, b: u128) -> u128 { if b == 0 { a } else { gcd(b, a % b) } }

/// fraction with i128 parts (inputs are small)
#[derive(Clone, Copy, Debug, PartialEq, Eq)]
pub struct Frac { pub n: i128, pub d: i128 }
impl Frac {
  pub fn new(n: i128, d: i128) -> Option<Frac> {
    if d == 0 { return None; }
    let g = gcd(n.unsigned_abs(), d.unsigned_abs()) as i128;
    let (mut n, mut d) = (n / g.max(1), d / g.max(1));
    if d < 0 { n = -n; d = -d; }
    Some(Frac { n, d })
  }
  pub fn parse(s: &str) -> Option<Frac> {
    let s = s.trim();
    match s.split_once('/') {
      Some((a, b)) => Frac::new(a.trim().parse().ok()?, b.trim().parse().ok()?),
      None => Frac::new(s.parse().ok()?, 1),
    }
  }
  pub fn text(&self) -> String { format!("{}/{}", self.n, self.d) }
  pub fn fits_i64(&self) -> bool { self.n >= i64::MIN as i128 && self.n <= i64::MAX as i128 && self.d <= i64::MAX as i128 }
  pub fn cmp(&self, o: &Frac) -> std::cmp::Ordering { (self.n * o.d).cmp(&(o.n * self.d)) }
}

#[derive(Clone, Debug, PartialEq)]
pub enum RefAns {
  /// the statement fixes the value
  Exact(Canon),
  /// any of these (the statement does not fix which)
  OneOf(Vec<Canon>),
  /// float within 1 ulp of this f64/f32 value (libm entry point not fixed)
  Near(String, f64),
  /// exact result not representable / outside the statement: error or anything
  Unjudged,
}

fn b(v: bool) -> RefAns { RefAns::Exact(Canon::Bool(v)) }

/// scalar reference for `lhs op rhs`, operands given by their canonical text
pub fn ref_binop(op: &str, kind: &str, l: &str, r: &str) -> RefAns {
  use std::cmp::Ordering::*;
  if is_int(kind) {
    let (x, y) = match (Wide::parse(l), Wide::parse(r)) { (Some(x), Some(y)) => (x, y), _ => return RefAns::Unjudged };
    let fit = |w: Option<Wide>| match w { Some(w) if w.fits(kind) => RefAns::Exact(Canon::Num(kind.into(), w.text())), _ => RefAns::Unjudged };
    return match op {
      "+" => fit(x.add(&y)),
      "-" => fit(x.sub(&y)),
      "*" => fit(x.mul(&y)),
      "/" => match x.divrem_trunc(&y) { Some((q, rem)) if rem.is_zero() => fit(Some(q)), _ => RefAns::Unjudged },
      "%" => match x.divrem_trunc(&y) {
        Some((_q, rem)) => {
          if rem.is_zero() || (x.neg == y.neg) { fit(Some(rem)) } else {
            // mixed signs: truncated or floored remainder
            let floored = rem.add(&y);
            let mut v = vec![Canon::Num(kind.into(), rem.text())];
            if let Some(f) = floored { if f.fits(kind) { v.push(Canon::Num(kind.into(), f.text())); } }
            RefAns::OneOf(v)
          }
        }
        None => RefAns::Unjudged,
      },
      "^" => { if y.neg || y.mag > 200 { RefAns::Unjudged } else { fit(x.pow(y.mag as u32)) } }
      "==" => b(x.cmp(&y) == Equal),
      "!=" => b(x.cmp(&y) != Equal),
      "<" => b(x.cmp(&y) == Less),
      "<=" => b(x.cmp(&y) != Greater),
      ">" => b(x.cmp(&y) == Greater),
      ">=" => b(x.cmp(&y) != Less),
      _ => RefAns::Unjudged,
    };
  }
  if kind == "f64" {
    let (x, y): (f64, f64) = match (l.parse(), r.parse()) { (Ok(x), Ok(y)) => (x, y), _ => return RefAns::Unjudged };
    let e = |v: f64| RefAns::Exact(Canon::Num("f64".into(), f64_text(v)));
    return match op {
      "+" => e(x + y), "-" => e(x - y), "*" => e(x * y), "/" => e(x / y),
      "%" => RefAns::OneOf(vec![Canon::Num("f64".into(), f64_text(x % y)), Canon::Num("f64".into(), f64_text(x.rem_euclid(y))), Canon::Num("f64".into(), f64_text(ieee_rem(x, y)))]),
      "^" => RefAns::Near("f64".into(), x.powf(y)),
      "==" => b(x == y), "!=" => b(x != y), "<" => b(x < y), "<=" => b(x <= y), ">" => b(x > y), ">=" => b(x >= y),
      _ => RefAns::Unjudged,
    };
  }
  if kind == "f32" {
    let (x, y): (f32, f32) = match (l.parse(), r.parse()) { (Ok(x), Ok(y)) => (x, y), _ => return RefAns::Unjudged };
    let e = |v: f32| RefAns::Exact(Canon::Num("f32".into(), f32_text(v)));
    return match op {
      "+" => e(x + y), "-" => e(x - y), "*" => e(x * y), "/" => e(x / y),
      "%" => RefAns::OneOf(vec![Canon::Num("f32".into(), f32_text(x % y)), Canon::Num("f32".into(), f32_text(x.rem_euclid(y))), Canon::Num("f32".into(), f32_text(ieee_rem(x as f64, y as f64) as f32))]),
      "^" => RefAns::Near("f32".into(), x.powf(y) as f64),
      "==" => b(x == y), "!=" => b(x != y), "<" => b(x < y), "<=" => b(x <= y), ">" => b(x > y), ">=" => b(x >= y),
      _ => RefAns::Unjudged,
    };
  }
  if kind == "r64" {
    let (x, y) = match (Frac::parse(l), Frac::parse(r)) { (Some(x), Some(y)) => (x, y), _ => return RefAns::Unjudged };
    let fit = |f: Option<Frac>| match f { Some(f) if f.fits_i64() => RefAns::Exact(Canon::Num("r64".into(), f.text())), _ => RefAns::Unjudged };
    return match op {
      "+" => fit(Frac::new(x.n * y.d + y.n * x.d, x.d * y.d)),
      "-" => fit(Frac::new(x.n * y.d - y.n * x.d, x.d * y.d)),
      "*" => fit(Frac::new(x.n * y.n, x.d * y.d)),
      "/" => fit(Frac::new(x.n * y.d, x.d * y.n)),
      "==" => b(x.cmp(&y) == Equal), "!=" => b(x.cmp(&y) != Equal),
      "<" => b(x.cmp(&y) == Less), "<=" => b(x.cmp(&y) != Greater), ">" => b(x.cmp(&y) == Greater), ">=" => b(x.cmp(&y) != Less),
      _ => RefAns::Unjudged,
    };
  }
  if kind == "bool" {
    let (x, y) = (l == "true", r == "true");
    return match op {
      "&&" => b(x && y), "||" => b(x || y), "⊕" => b(x != y), "==" => b(x == y), "!=" => b(x != y),
      _ => RefAns::Unjudged,
    };
  }
  if kind == "string" {
    return match op { "==" => b(l == r), "!=" => b(l != r), _ => RefAns::Unjudged };
  }
  RefAns::Unjudged
}

pub fn ref_unop(op: &str, kind: &str, x: &str) -> RefAns {
  match op {
    "-" => {
      if is_int(kind) {
        match Wide::parse(x) { Some(w) if w.negate().fits(kind) && !is_unsigned(kind) => RefAns::Exact(Canon::Num(kind.into(), w.negate().text())), _ => RefAns::Unjudged }
      } else if kind == "f64" { match x.parse::<f64>() { Ok(v) => RefAns::Exact(Canon::Num("f64".into(), f64_text(-v))), _ => RefAns::Unjudged } }
      else if kind == "f32" { match x.parse::<f32>() { Ok(v) => RefAns::Exact(Canon::Num("f32".into(), f32_text(-v))), _ => RefAns::Unjudged } }
      else if kind == "r64" { match Frac::parse(x) { Some(f) => RefAns::Exact(Canon::Num("r64".into(), Frac { n: -f.n, d: f.d }.text())), _ => RefAns::Unjudged } }
      else { RefAns::Unjudged }
    }
    "!" => if kind == "bool" { b(x != "true") } else { RefAns::Unjudged },
    _ => RefAns::Unjudged,
  }
}

fn ieee_rem(x: f64, y: f64) -> f64 {
  if y == 0.0 || !x.is_finite() || y.is_nan() { return f64::NAN; }
  if y.is_infinite() { return x; }
  let q = (x / y).round_ties_even();
  x - q * y
}

pub fn ulp_close(kind: &str, expect: f64, got_text: &str) -> bool {
  if kind == "f32" {
    let g: f32 = match got_text.parse() { Ok(g) => g, Err(_) => return false };
    let e = expect as f32;
    if e.is_nan() { return g.is_nan(); }
    if e == g { return true; }
    if e.is_infinite() || g.is_infinite() { return false; }
    let (a, bb) = (e.to_bits() as i64, g.to_bits() as i64);
    (a - bb).abs() <= 1
  } else {
    let g: f64 = match got_text.parse() { Ok(g) => g, Err(_) => return false };
    if expect.is_nan() { return g.is_nan(); }
    if expect == g { return true; }
    if expect.is_infinite() || g.is_infinite() { return false; }
    let (a, bb) = (expect.to_bits() as i128, g.to_bits() as i128);
    (a - bb).abs() <= 1
  }
}

/// does an observed canon satisfy the reference answer
pub fn satisfies(ans: &RefAns, got: &Canon) -> bool {
  match ans {
    RefAns::Exact(c) => c == got,
    RefAns::OneOf(v) => v.contains(got),
    RefAns::Near(k, e) => match got { Canon::Num(gk, t) => gk == k && ulp_close(k, *e, t), _ => false },
    RefAns::Unjudged => true,
  }
}
