//! C06 — compiled bytecode computes what the interpreter computed.
//! unit = one program: interpret in I1, compile, decode, run in a FRESH interpreter I2, compare canonical results.
use super::c01;
use super::c03::{self, Ix};
use super::*;
use crate::canon::{canon, Canon};
use crate::pool::*;
use crate::refnum::*;
use crate::report::Report;
use crate::subject::*;
use mech_core::*;
use mech_interpreter::Interpreter;
use serde_json::json;
use std::panic::{catch_unwind, AssertUnwindSafe};

#[derive(Clone, Debug)]
pub struct Prog { pub text: String, pub family: String, pub must_run: bool }

fn shape_name(s: (usize, usize)) -> String { if s == (0, 0) { "S".into() } else { format!("{}x{}", s.0, s.1) } }

pub fn programs(tier: Tier) -> Vec<Prog> {
  let mut v: Vec<Prog> = vec![];
  // (1) every elementwise operator arm x kind x form pair (distinct operands), class A
  let shapes: Vec<(usize, usize)> = tier.pick(vec![(0, 0), (1, 3), (3, 1), (2, 2), (2, 3)], vec![(0, 0), (1, 1), (1, 3), (3, 1), (2, 2), (2, 3), (3, 2), (3, 3)]);
  for kind in ALL_KINDS.iter() {
    for ls in &shapes { for rs in &shapes {
      if c01::result_shape(*ls, *rs).map(|r| r.is_err()).unwrap_or(true) { continue; }
      let (lp, rp) = c01::pools(kind, 0);
      let lv = c01::fill(&lp, ls.0, ls.1);
      let rv = c01::fill(&rp, rs.0, rs.1);
      let da = if *ls == (0, 0) { c01::define_scalar("a", kind, &lv[0]) } else { c01::define_matrix("a", kind, &lv, ls.0, ls.1) };
      let db = if *rs == (0, 0) { c01::define_scalar("b", kind, &rv[0]) } else { c01::define_matrix("b", kind, &rv, rs.0, rs.1) };
      for op in c01::ops_for(kind) {
        v.push(Prog { text: format!("{}\n{}\nr := a {} b", da, db, op), family: format!("binop:{}:{}:{}.{}", op, kind, shape_name(*ls), shape_name(*rs)), must_run: !matches!(*kind, "r64" | "c64") });
      }
      if *rs == shapes[0] {
        for op in c01::UNOPS { if (op == "!") == (*kind == "bool") && *kind != "string" { v.push(Prog { text: format!("{}\nr := {}a", da, op), family: format!("unop:{}:{}:{}", op, kind, shape_name(*ls)), must_run: true }); } }
      }
    } }
  }
  // (2) index reads
  let ixs1: Vec<Ix> = vec![Ix::S(1), Ix::S(4), Ix::V(vec![1, 3]), Ix::V(vec![3, 3, 1]), Ix::R(1, 2, true), Ix::R(1, 3, false), Ix::All, Ix::M(vec![true, false, true])];
  let ixsd: Vec<Ix> = vec![Ix::S(1), Ix::S(3), Ix::V(vec![1, 3]), Ix::R(1, 2, true), Ix::All, Ix::M(vec![true, false, true])];
  for kind in ["f64", "u8", "string", "bool", "i64"] {
    for shape in [(3usize, 3usize), (1, 3), (3, 1)] {
      let def = c01::define_matrix("x", kind, &c03::matrix_values(kind, shape.0, shape.1), shape.0, shape.1);
      for a in &ixs1 { v.push(Prog { text: format!("{}\nr := x[{}]", def, a.text()), family: format!("index-read:{}:{}@{}", kind, a.form(), c03::storage_class(shape)), must_run: true }); }
      if shape == (3, 3) { for a in &ixsd { for b in &ixsd { v.push(Prog { text: format!("{}\nr := x[{},{}]", def, a.text(), b.text()), family: format!("index-read:{}:{},{}@mat", kind, a.form(), b.form()), must_run: true }); } } }
    }
  }
  // (3) indexed assignment and op-assignment
  for kind in ["f64", "u8"] {
    for shape in [(2usize, 3usize), (1, 3)] {
      let def = format!("~{}", c01::define_matrix("x", kind, &c03::matrix_values(kind, shape.0, shape.1), shape.0, shape.1).replace(".5", ""));
      let lit = if kind == "u8" { "7u8" } else { "7" };
      let mut targets: Vec<String> = vec!["2".into(), "[1 3]".into(), "1..=2".into(), ":".into(), "[true false true]".into()];
      if shape.0 > 1 { targets = vec!["2".into(), "[1 3]".into(), "1..=2".into(), ":".into(), "1,2".into(), "1,:".into(), ":,2".into(), "[1 2],[1 3]".into(), "1..=2,2".into(), "[true false],:".into()]; }
      for t in &targets { for op in ["=", "+=", "-=", "*=", "/="] {
        v.push(Prog { text: format!("{}\nx[{}] {} {}", def, t, op, lit), family: format!("index-assign:{}:{}:{}@{}", op, kind, t.replace(|c: char| c.is_ascii_digit(), "n"), c03::storage_class(shape)), must_run: true });
      } }
      v.push(Prog { text: format!("{}\nx[[1 2]] = [{} {}]", def, lit, lit), family: format!("index-assign:=:{}:vector-source@{}", kind, c03::storage_class(shape)), must_run: true });
    }
    let lit = if kind == "u8" { "7u8" } else { "7" };
    for op in ["=", "+=", "-=", "*=", "/="] { v.push(Prog { text: format!("~x{} := {}\nx {} {}", if kind == "u8" { "<u8>" } else { "" }, if kind == "u8" { "20" } else { "20" }, op, lit), family: format!("scalar-assign:{}:{}", op, kind), must_run: true }); }
  }
  // (4) ranges
  for kind in NUM_KINDS.iter().filter(|k| **k != "c64" && **k != "r64") {
    for (nm, body) in [("incl", "a..=b"), ("excl", "a..b"), ("step", "a..s..=b")] {
      v.push(Prog { text: format!("a<{k}> := 1\nb<{k}> := 5\ns<{k}> := 2\nr := {body}", k = kind, body = body), family: format!("range:{}:{}", nm, kind), must_run: true });
    }
  }
  v.push(Prog { text: "r := 1..=5".into(), family: "range:incl:literal".into(), must_run: true });
  v.push(Prog { text: "r := 2..2..10".into(), family: "range:step:literal".into(), must_run: true });
  // operators over untyped (f64 / bool) literals as the whole program, with operands that make operand order visible: the last plan step
  // is the operator itself, so one solve of the rebuilt plan executes the rebuilt function on the decoded constants
  for op in ["+", "-", "*", "/", "%", "^", "==", "!=", "<", "<=", ">", ">="] {
    for (nm, l, r) in [("scalars", "7", "2"), ("vectors", "[7 9 4]", "[2 3 8]"), ("scalar-vector", "7", "[2 3 8]"), ("vector-scalar", "[7 9 4]", "2"), ("matrices", "[7 9; 4 6]", "[2 3; 8 5]"), ("matrix-row", "[7 9; 4 6]", "[2 3]"), ("matrix-column", "[7 9; 4 6]", "[2; 3]")] {
      v.push(Prog { text: format!("{} {} {}", l, op, r), family: format!("bare-binop:{}:{}", nm, op), must_run: false });
    }
  }
  for op in ["&&", "||", "⊕"] { for (nm, l, r) in [("scalars", "true", "false"), ("vectors", "[true false true]", "[false false true]")] { v.push(Prog { text: format!("{} {} {}", l, op, r), family: format!("bare-binop:{}:{}", nm, op), must_run: false }); } }
  for (nm, t) in [("neg-scalar", "-(7)"), ("neg-vector", "-[7 9 4]"), ("not", "!true"), ("not-vector", "![true false]"), ("transpose", "[1 2; 3 4; 5 6]'"), ("matmul", "[1 2; 3 4] ** [5 6; 7 8]"), ("matmul-vector", "[1 2; 3 4] ** [5; 6]"), ("dot", "[1 2 3] · [4 5 6]"),
    ("hcat", "[[1 2] [3 4]]"), ("vcat", "[[1 2]; [3 4]]"), ("union", "{1,2} ∪ {3}"), ("difference", "{1,2,3} ∖ {2}"), ("subset", "{1} ⊆ {1,2}"), ("member", "2 ∈ {1,2}"), ("string-eq", "\"a\" == \"b\""), ("sin", "math/sin(0.5)"), ("atan2", "math/atan2(1, 2)"), ("sum-column", "stats/sum/column([1 2; 3 4])")] {
    v.push(Prog { text: t.to_string(), family: format!("bare-expr:{}", nm), must_run: false });
  }
  // every range form over literals and over untyped variables, with ends on and off the grid (these run from bytecode on this tree)
  for (nm, body) in [("excl", "1..6"), ("incl", "1..=6"), ("step-excl", "1..2..9"), ("step-incl", "1..2..=9"), ("step-excl-off-grid", "1..3..9"), ("step-incl-off-grid", "1..3..=9"), ("step-fraction", "0..0.5..=2"), ("excl-fraction", "0.5..3.5")] {
    v.push(Prog { text: format!("r := {}", body), family: format!("range:{}:f64-literal", nm), must_run: true });
    // the bare expression as the whole program: the last plan step is then the range function itself
    v.push(Prog { text: body.to_string(), family: format!("range:{}:bare", nm), must_run: false });
    let vb = body.replacen("1", "a", 1).replace("9", "b").replace("6", "b");
    v.push(Prog { text: format!("a := 1\nb := {}\nr := {}", if body.contains('9') { 9 } else { 6 }, vb), family: format!("range:{}:f64-variables", nm), must_run: false });
  }
  // (5) literals and variable chains
  for (nm, lit) in [("f64", "1.5"), ("int", "42"), ("u8", "200u8"), ("u64", "7u64"), ("f32", "2.5f32"), ("hex", "0xff"), ("bin", "0b101"), ("oct", "0o17"), ("string", "\"hello\""), ("bool", "true"), ("rational", "1/3"), ("complex", "1+2i"), ("neg", "-3"), ("sci", "1.5e2")] {
    v.push(Prog { text: format!("x := {}", lit), family: format!("literal:{}", nm), must_run: !matches!(nm, "rational" | "complex") });
    v.push(Prog { text: format!("{}", lit), family: format!("bare-literal:{}", nm), must_run: !matches!(nm, "rational" | "complex") });
  }
  for (nm, t) in [("chain", "a := 1\nb := a\nc := b + a"), ("chain-matrix", "a := [1 2 3]\nb := a * 2\nc := b - a"), ("bare-variable", "a := [1 2 3]\na"), ("reassign", "~a := 1\na = 2\nb := a + 1"),
                  ("string-eq", "a := \"x\"\nb := \"y\"\nc := a == b"), ("logic-chain", "a := true\nb := false\nc := a && b || a"), ("transpose", "a := [1 2; 3 4]\nb := a'"), ("paren", "a := 2\nb := (a + 1) * (a - 1)"),
                  ("annotated", "a<u8> := 5\nb<u8> := 6\nc := a + b"), ("annotated-matrix", "a<[i16]> := [1 2 3]\nb := a + a")] {
    v.push(Prog { text: t.into(), family: format!("program:{}", nm), must_run: true });
  }
  // (5b) systematic constant families: every matrix literal shape up to 6x4 (bare and bound: each row count is its own
  // n-ary concatenation instruction) and string constants over every UTF-8 width, scalar and in matrices
  for r in 1..=6usize { for c in 1..=4usize {
    let vals: Vec<String> = (0..r * c).map(|i| format!("{}", i + 1)).collect();
    let lit = c01::matrix_literal(&vals, r, c);
    v.push(Prog { text: format!("x := {}", lit), family: format!("matrix-literal:bound:{}x{}", r, c), must_run: true });
    v.push(Prog { text: lit.clone(), family: format!("matrix-literal:bare:{}x{}", r, c), must_run: true });
    v.push(Prog { text: format!("a := 10\nx := {}", lit.replacen("1", "a", 1)), family: format!("matrix-literal:with-variable:{}x{}", r, c), must_run: true });
  } }
  let strs = ["", "a", "hello world", "é", "héllo", "日", "日本語", "😀", "a😀é日", "tab\\tq", "x y  z"];
  for (i, t) in strs.iter().enumerate() {
    v.push(Prog { text: format!("x := \"{}\"", t), family: format!("string-constant:scalar:{}", i), must_run: true });
    v.push(Prog { text: format!("x := [\"{}\" \"k\"]", t), family: format!("string-constant:matrix:{}", i), must_run: true });
    v.push(Prog { text: format!("a := \"{}\"\nb := \"{}\"\nc := a == b", t, t), family: format!("string-constant:compare:{}", i), must_run: true });
  }
  // (5a) programs with 1..16, 24, 25 and 26 variables (class A: the symbol table must survive the round trip)
  for n in (1..=16usize).chain([24usize, 25, 26]) {
    v.push(Prog { text: (0..n).map(|i| format!("v{} := {}", i, i + 1)).chain(std::iter::once(format!("r := v0 + v{}", n - 1))).collect::<Vec<_>>().join("\n"), family: format!("many-variables:{}", n), must_run: true });
  }
  // (5b) container constants of every small shape, with a multi-byte string at every position (class B: may fail, never differ)
  {
    let strs = ["a", "éa", "日本", "x😀"];
    for r in 1..=3usize { for c in 1..=3usize {
      // tables: c columns alternating f64 / string / u8 kinds, r rows
      let kinds = ["f64", "string", "u8"];
      let head: Vec<String> = (0..c).map(|j| format!("c{}<{}>", j, kinds[j % 3])).collect();
      for variant in 0..2usize {
        let rows: Vec<String> = (0..r).map(|i| (0..c).map(|j| match kinds[j % 3] { "f64" => format!("{}.5", i * 3 + j), "string" => format!("\"{}\"", strs[(i + j + variant * 2) % strs.len()]), _ => format!("{}", i * 3 + j + 1) }).collect::<Vec<_>>().join(" ")).collect();
        v.push(Prog { text: format!("x := | {} | {} |", head.join(" "), rows.join(" | ")), family: format!("container-constant:table:{}x{}", r, c), must_run: false });
      }
      // string matrices with the multi-byte string at every position
      for pos in 0..r * c {
        let cells: Vec<String> = (0..r * c).map(|k| format!("\"{}\"", if k == pos { strs[1 + pos % 3] } else { "k" })).collect();
        v.push(Prog { text: format!("x := {}", super::c01::matrix_literal(&cells, r, c)), family: format!("container-constant:string-matrix:{}x{}", r, c), must_run: false });
      }
    } }
    for n in 1..=3usize { for pos in 0..n {
      let items: Vec<String> = (0..n).map(|k| format!("\"{}\"", if k == pos { strs[1 + (pos + n) % 3].to_string() } else { format!("m{}", k) })).collect();
      v.push(Prog { text: format!("x := {{{}}}", items.join(", ")), family: format!("container-constant:string-set:{}", n), must_run: false });
      // (tuples are not enumerated here: compile() of any tuple constant never returns - known finding structure:tuple-literal - and every hang costs its full budget)
      v.push(Prog { text: format!("x := {{{}}}", items.iter().enumerate().map(|(k, s)| format!("f{}: {}", k, s)).collect::<Vec<_>>().join(", ")), family: format!("container-constant:record:{}", n), must_run: false });
      v.push(Prog { text: format!("x := {{{}}}", items.iter().enumerate().map(|(k, s)| format!("{}: {}", s, k)).collect::<Vec<_>>().join(", ")), family: format!("container-constant:map:{}", n), must_run: false });
    } }
    for n in 1..=4usize { v.push(Prog { text: format!("x := {{{}}}", (1..=n).map(|k| k.to_string()).collect::<Vec<_>>().join(", ")), family: format!("container-constant:number-set:{}", n), must_run: false }); }
    // containers of every element kind: the element-kind tag of a set / table column / matrix-in-a-tuple constant is decoded by one arm per kind
    for (k, a, b, c) in [("u8", "1u8", "2u8", "3u8"), ("u16", "1u16", "2u16", "3u16"), ("u32", "1u32", "2u32", "3u32"), ("u64", "1u64", "2u64", "3u64"), ("i8", "1<i8>", "2<i8>", "3<i8>"), ("i16", "1<i16>", "2<i16>", "3<i16>"), ("i32", "1<i32>", "2<i32>", "3<i32>"), ("i64", "0x1", "0x2", "0x3"),
      ("f32", "1.5<f32>", "2.5<f32>", "3.5<f32>"), ("f64", "1.5", "2.5", "3.5"), ("r64", "1/2", "1/3", "3/4"), ("c64", "1+2i", "3-4i", "0+1i"), ("bool", "true", "false", "true"), ("string", "\"p\"", "\"qq\"", "\"\"")] {
      v.push(Prog { text: format!("x := {{{}, {}, {}}}", a, b, c), family: format!("container-constant:kind-set:{}", k), must_run: false });
      v.push(Prog { text: format!("x := {{{}}}", a), family: format!("container-constant:kind-set-one:{}", k), must_run: false });
      v.push(Prog { text: format!("s := {{{}, {}}}\nx := s ∪ {{{}}}", a, b, c), family: format!("container-constant:kind-set-union:{}", k), must_run: false });
      v.push(Prog { text: format!("x := | v<{}> | {} | {} | {} |", k, a.split('<').next().unwrap_or(a), b.split('<').next().unwrap_or(b), c.split('<').next().unwrap_or(c)), family: format!("container-constant:kind-table:{}", k), must_run: false });
      v.push(Prog { text: format!("x := {{f: {}, g: {}}}", a, b), family: format!("container-constant:kind-record:{}", k), must_run: false });
    }
  }
  // (6) class B: may fail, must not lie
  for (nm, t) in [
    ("matrix-literal", "x := [1 2; 3 4]"), ("matrix-of-vars", "a := 1\nb := 2\nx := [a b; b a]"), ("matrix-4rows", "x := [1; 2; 3; 4]"), ("matrix-4rows-bare", "[1; 2; 3; 4]"), ("matrix-5rows", "x := [1; 2; 3; 4; 5]"), ("matrix-2x4", "x := [1 2 3 4; 5 6 7 8]"),
    ("set-literal", "x := {1,2,3}"), ("set-union", "a := {1,2}\nb := {2,3}\nc := a ∪ b"), ("set-member", "a := {1,2}\nc := 1 ∈ a"),
    ("table-literal", "x := | a<f64> b<f64> | 1 2 | 3 4 |"), ("table-column", "x := | a<f64> b<f64> | 1 2 | 3 4 |\ny := x.a"),
    ("record-literal", "x := {a: 1, b: \"s\"}"), ("record-field", "x := {a: 1, b: \"s\"}\ny := x.a"), ("tuple-literal", "x := (1, 2)"), ("tuple-elem", "x := (1, \"s\")\ny := x.1"),
    ("map-literal", "x := {\"a\": 1, \"b\": 2}"), ("string-multibyte", "x := \"héllo\""), ("string-cjk", "x := \"日本語\""), ("string-matrix-multibyte", "x := [\"é\" \"日本\"]"), ("string-empty", "x := \"\""),
    ("convert-scalar", "a := 300\nb<u8> := a"), ("convert-matrix", "a := [1.5 2.5]\nb<[i32]> := a"), ("reshape", "a := [1 2 3 4 5 6]\nb<[f64]:2,3> := a"), ("to-set", "a := [1 2 2]\nb<{f64}> := a"),
    ("call-sin", "x := math/sin(0.5)"), ("call-sum", "x := stats/sum/column([1 2; 3 4])"), ("call-nck", "x := combinatorics/n-choose-k(10,2)"), ("call-atan2", "x := math/atan2(1,2)"), ("matmul", "a := [1 2; 3 4]\nb := a ** a"), ("dot", "a := [1 2 3]\nb := a · a"),
    ("string-concat", "a := \"x\"\nb := a + \"y\""), ("user-fn", "f(x<f64>) => <f64>\n  | x => x + 1.\ny := f(2)"), ("match", "x := 2\ny := x?\n  | 1 => 10\n  | * => 20."), ("comprehension", "x := {y * 2 | y <- {1,2,3}}"),
    ("fsm", "#C(n<u64>) => <u64>\n  ├ :A(n<u64>)\n  └ :D(n<u64>).\n\n#C(n<u64>) -> :A(n)\n  :A(n)\n    ├ n > 0u64 -> :A(n - 1u64)\n    └ n == 0u64 -> :D(0u64)\n  :D(n) => n.\n\ny := #C(3u64)"),
    ("enum", "<color> := :red | :green\nx<color> := :red"), ("atom", "x := :a"), ("empty", "x := _"), ("option", "x<f64?> := 1"), ("kind-of", "x := <f64>"),
  ] {
    v.push(Prog { text: t.into(), family: format!("structure:{}", nm), must_run: false });
  }
  v
}

pub struct C06 { tier: Tier, progs: Vec<Prog> }
impl C06 { pub fn new(tier: Tier) -> C06 { C06 { tier, progs: programs(tier) } } }

impl UnitRunner for C06 {
  fn unit(&mut self, _payload: &str, unit: u64, out: &mut WorkerOut) {
    let p = &self.progs[unit as usize];
    out.evaluations += 1;
    let tree = match parse_cached(&p.text) { Some(t) => t, None => { out.count("program_unparsable"); out.set("unparsable", &p.family); return; } };
    let mut i1 = Interpreter::new(0);
    let r1 = match catch_unwind(AssertUnwindSafe(|| i1.interpret(&tree))) { Ok(Ok(v)) => v, _ => { out.count("interpreter_rejects_program"); out.set("interpreter_rejected", &p.family); return; } };
    let c1 = canon(&r1);
    let case = p.text.replace('\n', " ; ");
    let cls_fail = |stage: &str, what: &str| if p.must_run { format!("C06|simple-program-failed|{}:{}|{}", stage, what, fam_key(&p.family)) } else { String::new() };
    // compile
    let bytes = match catch_unwind(AssertUnwindSafe(|| i1.compile())) {
      Ok(Ok(b)) => b,
      Ok(Err(e)) => { out.count("compile_error"); if p.must_run { out.nontrivial += 1; out.fail(cls_fail("compile", &e.kind_name()), case, format!("compile() -> Err({})", e.kind_name())); } return; }
      Err(pn) => { out.nontrivial += 1; out.fail(format!("C06|panic|compile|{}", fam_key(&p.family)), case, panic_msg(pn)); return; }
    };
    let prog = match catch_unwind(AssertUnwindSafe(|| ParsedProgram::from_bytes(&bytes))) {
      Ok(Ok(pp)) => pp,
      Ok(Err(e)) => { out.count("load_error"); if p.must_run { out.nontrivial += 1; out.fail(cls_fail("load", &e.kind_name()), case, format!("from_bytes -> Err({})", e.kind_name())); } return; }
      Err(pn) => { out.nontrivial += 1; out.fail(format!("C06|panic|load|{}", fam_key(&p.family)), case, panic_msg(pn)); return; }
    };
    let mut i2 = Interpreter::new(1);
    match catch_unwind(AssertUnwindSafe(|| i2.run_program(&prog))) {
      Ok(Ok(v2)) => {
        out.nontrivial += 1;
        let c2 = canon(&v2);
        out.set("families_reproduced", &fam_key(&p.family));
        if c1 != c2 { out.fail(format!("C06|different-result|run|{}", fam_key(&p.family)), case.clone(), format!("interpreter: {} ; bytecode in a fresh interpreter: {}", c1.short(), c2.short())); }
        else if !p.text.contains(" = ") && !p.text.contains("+=") && !p.text.contains("-=") && !p.text.contains("*=") && !p.text.contains("/=") {
          // one solve of the rebuilt plan (see the note at the other interpreters below)
          out.evaluations += 1;
          match catch_unwind(AssertUnwindSafe(|| i2.step(0, 1))) {
            Ok(Ok(v3)) => { out.nontrivial += 1; let c3 = canon(&v3); if c3 != c1 { out.fail(format!("C06|different-result|solved-once-in-fresh-interpreter|{}", fam_key(&p.family)), case.clone(), format!("interpreter: {} ; bytecode in a fresh interpreter after one solve of the rebuilt plan: {}", c1.short(), c3.short())); } else { out.count("rebuilt_plan_solved_once_agrees"); } }
            Ok(Err(_)) => out.count("rebuilt_plan_step_error"),
            Err(pn) => { out.fail(format!("C06|panic|solve-in-fresh-interpreter|{}", fam_key(&p.family)), case.clone(), panic_msg(pn)); }
          }
        }
        if unit % 53 == 0 { out.sample(json!({"program": case, "interpreter": c1.short(), "bytecode": c2.short(), "bytes": bytes.len()})); }
      }
      Ok(Err(e)) => {
        out.count("run_error");
        let detail = e.kind_message();
        if p.must_run { out.nontrivial += 1; out.fail(cls_fail("run", &e.kind_name()), case.clone(), format!("run_program -> Err({}: {})", e.kind_name(), detail.chars().take(120).collect::<String>())); }
      }
      Err(pn) => { out.nontrivial += 1; out.fail(format!("C06|panic|run|{}", fam_key(&p.family)), case.clone(), panic_msg(pn)); }
    }
    // Compile histories: more source interpreted by the same interpreter after the first compile(), then compile() again - the second file
    // must compute the interpreter's *latest* result (or fail), never the result of the first program.
    if unit % 4 == 0 {
      for (ci, cont) in ["hq1 := 41 + 1", "hq2 := [7 8 9]", "hq3 := \"later\"", "hq4 := 3 > 2"].iter().enumerate() {
        if (unit / 4) as usize % 4 != ci { continue; }
        let Some(t2) = parse_cached(cont) else { continue; };
        let mut ih = Interpreter::new(10);
        if !matches!(catch_unwind(AssertUnwindSafe(|| ih.interpret(&tree))), Ok(Ok(_))) { continue; }
        if !matches!(catch_unwind(AssertUnwindSafe(|| ih.compile())), Ok(Ok(_))) { continue; }
        let r2 = match catch_unwind(AssertUnwindSafe(|| ih.interpret(&t2))) { Ok(Ok(v)) => canon(&v), _ => continue };
        out.evaluations += 1;
        let hcase = format!("{} ;; compile() ;; {} ;; compile()", case, cont);
        let b2 = match catch_unwind(AssertUnwindSafe(|| ih.compile())) { Ok(Ok(b)) => b, Ok(Err(_)) => { out.count("second_compile_error"); continue; } Err(pn) => { out.fail(format!("C06|panic|second-compile|{}", fam_key(&p.family)), hcase, panic_msg(pn)); continue; } };
        let Ok(Ok(p2)) = catch_unwind(AssertUnwindSafe(|| ParsedProgram::from_bytes(&b2))) else { out.count("second_compile_load_error"); continue; };
        for (route, mut intr) in [("fresh", Interpreter::new(11)), ("compiling", ih)] {
          match catch_unwind(AssertUnwindSafe(|| intr.run_program(&p2))) {
            Ok(Ok(v)) => { out.nontrivial += 1; let c = canon(&v); if c != r2 { out.fail(format!("C06|different-result|second-compile:{}|{}", route, fam_key(&p.family)), hcase.clone(), format!("interpreter (latest statement): {} ; bytecode of the second compile: {}", r2.short(), c.short())); } else { out.count("second_compile_reproduced"); } }
            Ok(Err(_)) => out.count("second_compile_run_error"),
            Err(pn) => out.fail(format!("C06|panic|second-compile-run|{}", fam_key(&p.family)), hcase.clone(), panic_msg(pn)),
          }
          break;
        }
      }
    }
    // The same file in interpreters whose function registry already holds the program's functions (a fresh one does not, which is why
    // most typed programs cannot run there): the compiling interpreter itself - what the repository's own tests do - and a third
    // interpreter that has interpreted the same source. Here the decoded constants and the rebuilt functions really execute: the result
    // must be the interpreter's result (or an error), never another value, never a panic.
    let mut i3 = Interpreter::new(2);
    let warmed = matches!(catch_unwind(AssertUnwindSafe(|| i3.interpret(&tree))), Ok(Ok(_)));
    for (route, intr) in [("compiling-interpreter", Some(&mut i1)), ("warmed-interpreter", if warmed { Some(&mut i3) } else { None })] {
      let Some(intr) = intr else { continue; };
      out.evaluations += 1;
      match catch_unwind(AssertUnwindSafe(|| intr.run_program(&prog))) {
        Ok(Ok(v)) => {
          out.nontrivial += 1;
          let c = canon(&v);
          out.set(&format!("families_reproduced_in_{}", route), &fam_key(&p.family));
          if c != c1 { out.fail(format!("C06|different-result|run-in-{}|{}", route, fam_key(&p.family)), case.clone(), format!("interpreter: {} ; bytecode in the {}: {}", c1.short(), route, c.short())); }
          // run_program hands back the stored output of the last instruction; one solve of the rebuilt plan really executes the rebuilt
          // functions on the decoded constants. For a program without assignment statements the value must still be the interpreter's.
          else if !p.text.contains(" = ") && !p.text.contains("+=") && !p.text.contains("-=") && !p.text.contains("*=") && !p.text.contains("/=") {
            out.evaluations += 1;
            match catch_unwind(AssertUnwindSafe(|| intr.step(0, 1))) {
              Ok(Ok(v2)) => { out.nontrivial += 1; let c2 = canon(&v2); if c2 != c1 { out.fail(format!("C06|different-result|solved-once-in-{}|{}", route, fam_key(&p.family)), case.clone(), format!("interpreter: {} ; bytecode in the {} after one solve of the rebuilt plan: {}", c1.short(), route, c2.short())); } else { out.count("rebuilt_plan_solved_once_agrees"); } }
              Ok(Err(_)) => out.count("rebuilt_plan_step_error"),
              Err(pn) => { out.fail(format!("C06|panic|solve-in-{}|{}", route, fam_key(&p.family)), case.clone(), panic_msg(pn)); }
            }
          }
        }
        Ok(Err(e)) => { out.count(&format!("run_error_in_{}", route)); out.set(&format!("run_errors_in_{}", route), &format!("{}:{}", fam_key(&p.family), e.kind_name())); }
        Err(pn) => { out.nontrivial += 1; out.fail(format!("C06|panic|run-in-{}|{}", route, fam_key(&p.family)), case.clone(), panic_msg(pn)); }
      }
    }
  }
}

/// finding locus: the program family reduced to (family type, kind) for the generated operator/index families
fn fam_key(f: &str) -> String {
  let parts: Vec<&str> = f.split(':').collect();
  match parts[0] {
    "binop" | "unop" => format!("{}:{}", parts[0], parts[2]),
    "index-read" => format!("index-read:{}", parts[1]),
    "index-assign" => format!("index-assign:{}:{}", parts[1], parts[2]),
    _ => f.to_string(),
  }
}

impl Check for C06 {
  fn id(&self) -> &'static str { "C06" }
  fn level(&self) -> &'static str { "exploration" }
  fn unit_budget(&self, _t: Tier) -> Duration { Duration::from_secs(4) }
  fn drive(&mut self, tier: Tier, cfg: &PoolCfg, rep: &mut Report) {
    let n = self.progs.len() as u64;
    rep.rule = format!("{} generated programs: every elementwise operator x 16 kinds x every compatible form pair over {} shapes (distinct operands), index reads (1-D and all 2-D form pairs) and indexed (op-)assignments on f64/u8/string/bool/i64 matrices, ranges of every numeric kind, literal spellings, variable chains (class A: must compile, load and run) \
      and structure/stdlib/function/match/fsm programs (class B: may fail, must not differ); each is interpreted, compiled, decoded and run in a FRESH interpreter; evaluations = programs; non-trivial = programs whose bytecode result was compared or whose class-A pipeline failed", n, tier.pick(5, 8));
    rep.assumptions = vec![
      "the interpreter's result is the value returned by interpret(); the bytecode result is the value returned by run_program() in a new Interpreter (the repository's own tests reuse the compiling interpreter)".into(),
      "programs the interpreter itself rejects are skipped (counted); rational and complex operands are class B".into(),
    ];
    rep.cov("bounds", json!({"programs": n}));
    let progs = self.progs.clone();
    rep.describe = Some(Box::new(move |_p, u| { let p = &progs[u as usize]; (format!("pipeline|{}", fam_key(&p.family)), p.text.replace('\n', " ; ")) }));
    drive_ranges(cfg, rep, range_jobs("", n, 4));
    if rep.out.sets.get("families_reproduced").map(|s| s.len()).unwrap_or(0) < 20 { rep.vacuity.push("fewer than 20 program families ran to a compared result".into()); }
  }
}
