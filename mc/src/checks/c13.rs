//! C13 — numeric literals denote the number they spell. unit = chunk of spellings (one session per chunk).
use super::*;
use crate::canon::{f32_text, f64_text, Canon};
use crate::pool::*;
use crate::refnum::*;
use crate::report::Report;
use crate::subject::*;
use serde_json::json;

#[derive(Clone, Debug)]
pub struct Lit { pub text: String, pub family: &'static str, /// kind annotation on the variable (x<K> := text)
  pub annot: Option<&'static str> }

fn digit_strings(alpha: &[char], maxlen: usize) -> Vec<String> {
  let mut out = vec![];
  let mut cur: Vec<String> = vec![String::new()];
  for _ in 0..maxlen {
    let mut next = vec![];
    for s in &cur { for c in alpha { let mut t = s.clone(); t.push(*c); next.push(t); } }
    out.extend(next.iter().cloned());
    cur = next;
  }
  out
}

pub fn literals(tier: Tier) -> Vec<Lit> {
  let mut v: Vec<Lit> = vec![];
  let mut push = |text: String, family: &'static str, annot: Option<&'static str>, v: &mut Vec<Lit>| v.push(Lit { text, family, annot });
  // decimal integers: digit strings over {0,1,9} incl. underscores between digits
  for s in digit_strings(&['0', '1', '9'], tier.pick(3, 4)) {
    push(s.clone(), "integer", None, &mut v);
    if s.len() >= 2 { let mut u = String::new(); for (i, c) in s.chars().enumerate() { if i > 0 { u.push('_'); } u.push(c); } push(u, "integer-underscore", None, &mut v); }
  }
  // boundaries of every integer kind +-1, untyped / suffixed / annotated
  for k in INT_KINDS {
    let (mn, mx) = (kind_min(k), kind_max(k));
    let mut cands = vec![mx, mx.add(&Wide::from_i128(1)).unwrap_or(mx), mx.sub(&Wide::from_i128(1)).unwrap(), Wide::from_i128(0), Wide::from_i128(1), Wide::from_i128(2)];
    if !is_unsigned(k) { cands.push(mn); cands.push(mn.sub(&Wide::from_i128(1)).unwrap_or(mn)); cands.push(mn.add(&Wide::from_i128(1)).unwrap()); cands.push(Wide::from_i128(-1)); }
    for w in [(1u128 << 24) + 1, (1u128 << 53) + 1, (1u128 << 53) - 1, (1u128 << 63) - 1, (1u128 << 63) + 1, 1u128 << 64, (1u128 << 64) - 1, 255, 256, 65535, 65536] { cands.push(Wide::from_u128(w)); }
    for c in cands {
      let t = c.text();
      push(t.clone(), "annotated-integer", Some(k), &mut v);
      if is_unsigned(k) && !c.neg { push(format!("{}{}", t, k), "suffixed-integer", None, &mut v); }
      if !c.neg { push(t.clone(), "integer", None, &mut v); }
    }
  }
  for k in ["f32", "f64"] { for t in ["0", "1", "16777217", "9007199254740993", "0.1", "2.5", "3.4e38", "1.5e300"] { push(t.to_string(), "annotated-float", Some(k), &mut v); push(format!("{}{}", t, k), "suffixed-float", None, &mut v); } }
  // floats I.F and .F
  let ds = digit_strings(&['0', '1', '5', '9'], tier.pick(2, 3));
  for i in &ds { for f in &ds { push(format!("{}.{}", i, f), "float", None, &mut v); } }
  for f in &ds { push(format!(".{}", f), "float-no-whole", None, &mut v); }
  for t in ["0.1", "0.2", "0.3", "123456789.123456789", "0.000001", "1234567890123456789.5", "4.35", "2.675", "1.005", "0.30000000000000004"] { push(t.to_string(), "float", None, &mut v); }
  // scientific
  let exps: Vec<i32> = tier.pick(vec![0, 1, 2, 3, 5, 10, 15, 22, 23, 25, 100, 300, 308, 309, 400], (0..=25).chain([100, 200, 300, 307, 308, 309, 323, 324, 400]).collect());
  for m in ["1", "9", "1.1", "1.5", ".5", "12.25", "123", "2.5", "7.0", "9.999"] { for e in ["e", "E"] { for sg in ["", "+", "-"] { for x in &exps {
    push(format!("{}{}{}{}", m, e, sg, x), "scientific", None, &mut v);
  } } } }
  for t in ["1.0e2.5", "2.0e0.5"] { push(t.to_string(), "scientific-fractional-exponent", None, &mut v); }
  // based
  for (p, digs, bad) in [("0b", vec!['0', '1'], '2'), ("0o", vec!['0', '1', '7'], '8'), ("0x", vec!['0', '1', 'f', 'A'], 'g'), ("0d", vec!['0', '1', '9'], 'a')] {
    let mut alpha = digs.clone(); alpha.push(bad);
    for s in digit_strings(&alpha, tier.pick(3, 4)) { push(format!("{}{}", p, s), "based", None, &mut v); }
  }
  for t in ["0x7fffffffffffffff", "0x8000000000000000", "0xffffffffffffffff", "0x10000000000000000", "0b111111111111111111111111111111111111111111111111111111111111111", "0b1000000000000000000000000000000000000000000000000000000000000000",
            "0o777777777777777777777", "0o1000000000000000000000", "0d9223372036854775807", "0d9223372036854775808", "0xFF", "0xfF", "0x_ff", "0xff_ff"] { push(t.to_string(), "based-boundary", None, &mut v); }
  // rationals
  let rs = ["0", "1", "2", "3", "4", "6", "9", "12", "100"];
  for p in rs { for q in rs { push(format!("{}/{}", p, q), "rational", None, &mut v); push(format!("-{}/{}", p, q), "rational-negative", None, &mut v); } }
  for t in ["9223372036854775807/1", "1/9223372036854775807", "4611686018427387904/2", "10/4", "7/21"] { push(t.to_string(), "rational", None, &mut v); }
  // complex
  for a in ["1", "0", "2.5", "10"] { for b in ["1", "0", "3", "0.5"] { for sg in ["+", "-"] { for u in ["i", "j"] { push(format!("{}{}{}{}", a, sg, b, u), "complex", None, &mut v); } } } }
  for b in ["1", "3", "0.5", "0"] { for u in ["i", "j"] { push(format!("{}{}", b, u), "imaginary", None, &mut v); } }
  // complex literals whose real part is written in another real-number form (rational, based, leading-dot float)
  for a in ["1/2", "3/4", "6/3", "0x10", "0b11", "0o17", ".5", "1_0"] { for b in ["1", "0.5", "3"] { for sg in ["+", "-"] { push(format!("{}{}{}i", a, sg, b), "complex-real-part-forms", None, &mut v); } } }
  // a leading minus on every complex form
  for a in ["1", "2.5"] { for b in ["2", "0.5"] { for sg in ["+", "-"] { push(format!("-{}{}{}i", a, sg, b), "complex-negative-real", None, &mut v); } } }
  // based literals under a narrow kind annotation, in range and just out of range
  for k in ["u8", "i8", "u16", "i16"] { for t in ["0xff", "0x100", "0x7f", "0x80", "0b11111111", "0b100000000", "0o377", "0o400", "0xffff", "0x10000", "0x7fff", "0x8000", "0d255", "0d256"] { push(t.to_string(), "annotated-based", Some(k), &mut v); } }
  // the annotation written after the literal (a typed literal inside an expression): boundaries of the narrow kinds, negative ones included
  for k in ["u8", "i8", "u16", "i16", "u32", "i32"] {
    let (mn, mx) = (kind_min(k), kind_max(k));
    let mut cands = vec![mx, mx.add(&Wide::from_i128(1)).unwrap_or(mx), Wide::from_i128(0), Wide::from_i128(1)];
    if !is_unsigned(k) { cands.push(mn); cands.push(mn.sub(&Wide::from_i128(1)).unwrap_or(mn)); cands.push(Wide::from_i128(-1)); }
    for c in cands { push(format!("{}<{}>", c.text(), k), "postfix-annotated", None, &mut v); }
    for t in ["0xff", "0x100", "0x7f", "0x80"] { push(format!("{}<{}>", t, k), "postfix-annotated-based", None, &mut v); }
  }
  // leading minus
  for t in ["5", "0", "0.5", ".5", "1.5e2", "0xff", "1/3", "255u8", "9007199254740993"] { push(format!("-{}", t), "negated", None, &mut v); }
  v
}

pub const CHUNK: u64 = 40;

pub struct C13 { tier: Tier, lits: Vec<Lit> }
impl C13 { pub fn new(tier: Tier) -> C13 { C13 { tier, lits: literals(tier) } } }

pub enum Want { Exact(Canon), ExactOrError(Canon), MustError, Unjudged(&'static str) }

fn strip_us(s: &str) -> String { s.replace('_', "") }

/// float kinds: nearest representable; integer kinds: exact if it fits else clamp-or-error
fn typed_int_expect(kind: &str, digits: &str, through_f64: bool, neg: bool) -> Want {
  let sg: f64 = if neg { -1.0 } else { 1.0 };
  let w = match Wide::parse(&strip_us(digits)) { Some(w) => if neg { w.negate() } else { w }, None => return Want::Unjudged("not-an-integer") };
  if kind == "f64" { return match strip_us(digits).parse::<f64>() { Ok(x) => Want::Exact(Canon::Num("f64".into(), f64_text(sg * x))), _ => Want::Unjudged("unparsable") }; }
  if kind == "f32" { return match strip_us(digits).parse::<f32>() { Ok(x) => Want::Exact(Canon::Num("f32".into(), f32_text(sg as f32 * x))), _ => Want::Unjudged("unparsable") }; }
  // an untyped digit string is an f64 first: the annotated form converts that f64
  let w = if through_f64 {
    let f: f64 = strip_us(digits).parse::<f64>().unwrap_or(0.0) * if neg { -1.0 } else { 1.0 };
    Wide { neg: f < 0.0 && f.abs() >= 1.0, mag: f.abs() as u128 }   // `as` saturates, like the conversion it models
  } else { w };
  if w.fits(kind) { Want::Exact(Canon::Num(kind.into(), w.text())) }
  else { let c = if w.neg { kind_min(kind) } else { kind_max(kind) }; Want::ExactOrError(Canon::Num(kind.into(), c.text())) }
}

pub fn expectation(l: &Lit, production: &str) -> Want {
  // `256<u8>`: the same rule as the annotation on the variable
  if l.annot.is_none() && l.text.ends_with('>') {
    if let Some(p) = l.text.find('<') {
      let k = &l.text[p + 1..l.text.len() - 1];
      if let Some(ks) = ALL_KINDS.iter().find(|x| **x == k) { return expectation(&Lit { text: l.text[..p].to_string(), family: l.family, annot: Some(*ks) }, production); }
    }
  }
  let t = l.text.as_str();
  let (neg, body) = if let Some(r) = t.strip_prefix('-') { (true, r) } else { (false, t) };
  let sign = |c: Canon| -> Canon { if !neg { return c; } match c { Canon::Num(k, x) => { if k == "r64" { let f = Frac::parse(&x).unwrap(); Canon::Num(k, Frac { n: -f.n, d: f.d }.text()) } else if is_float(&k) { Canon::Num(k.clone(), if k == "f32" { f32_text(-x.parse::<f32>().unwrap()) } else { f64_text(-x.parse::<f64>().unwrap()) }) } else { let w = Wide::parse(&x).unwrap().negate(); Canon::Num(k, w.text()) } } o => o } };
  if let Some(k) = l.annot {
    if ["Hexadecimal", "Octal", "Binary", "Decimal"].contains(&production) {
      // a based literal under an integer kind: exact when it fits, else the documented clamp or an error, never another value
      if !is_int(k) { return Want::Unjudged("annotated-based-to-float"); }
      let radix = match production { "Hexadecimal" => 16, "Octal" => 8, "Binary" => 2, _ => 10 };
      return match u128::from_str_radix(&strip_us(&body[2..]), radix) {
        Ok(v) => { let w = Wide { neg: neg && v != 0, mag: v }; if w.fits(k) { Want::Exact(Canon::Num(k.into(), w.text())) } else { Want::ExactOrError(Canon::Num(k.into(), if w.neg { kind_min(k).text() } else { kind_max(k).text() })) } }
        Err(_) => Want::MustError,
      };
    }
    if production != "Integer" && production != "Float" && production != "Scientific" { return Want::Unjudged("annotated-non-decimal"); }
    if production == "Integer" { return typed_int_expect(k, body, true, neg); }
    // annotated float spelling: nearest in the target float kind
    return match k { "f64" => t.parse::<f64>().map(|x| Want::Exact(Canon::Num("f64".into(), f64_text(x)))).unwrap_or(Want::Unjudged("unparsable")),
                     "f32" => match t.parse::<f64>() { Ok(x) => Want::Exact(Canon::Num("f32".into(), f32_text(x as f32))), _ => Want::Unjudged("unparsable") },
                     _ => Want::Unjudged("annotated-float-to-int") };
  }
  match production {
    "Integer" => match strip_us(body).parse::<f64>() { Ok(x) => Want::Exact(sign(Canon::Num("f64".into(), f64_text(x)))), _ => Want::Unjudged("unparsable") },
    "Float" => { let n = strip_us(body); let n = if n.starts_with('.') { format!("0{}", n) } else { n }; match n.parse::<f64>() { Ok(x) => Want::Exact(sign(Canon::Num("f64".into(), f64_text(x)))), _ => Want::Unjudged("unparsable") } }
    "Scientific" => {
      let lower = strip_us(body).to_lowercase();
      let (m, e) = match lower.split_once('e') { Some(x) => x, None => return Want::Unjudged("no-exponent") };
      if e.contains('.') { return Want::Unjudged("fractional-exponent"); }
      let m = if m.starts_with('.') { format!("0{}", m) } else { m.to_string() };
      match format!("{}e{}", m, e).parse::<f64>() { Ok(x) if x.is_finite() => Want::Exact(sign(Canon::Num("f64".into(), f64_text(x)))), Ok(_) => Want::Unjudged("overflows-f64"), _ => Want::Unjudged("unparsable") }
    }
    "Hexadecimal" | "Octal" | "Binary" | "Decimal" => {
      let radix = match production { "Hexadecimal" => 16, "Octal" => 8, "Binary" => 2, _ => 10 };
      let digits = strip_us(&body[2..]);
      match u128::from_str_radix(&digits, radix) {
        Ok(v) => { let w = Wide { neg, mag: v }; if w.fits("i64") { Want::Exact(Canon::Num("i64".into(), w.text())) } else { Want::ExactOrError(Canon::Num("i64".into(), if neg { kind_min("i64").text() } else { kind_max("i64").text() })) } }
        Err(_) => Want::MustError,   // a digit outside the base: the grammar let it through, evaluation must not invent a value
      }
    }
    "TypedInteger" => {
      // digits followed by a kind suffix
      let split = body.find(|c: char| c.is_ascii_alphabetic()).unwrap_or(body.len());
      let (digits, kind) = body.split_at(split);
      if !ALL_KINDS.contains(&kind) { return Want::Unjudged("unknown-suffix"); }
      if digits.contains('.') || digits.to_lowercase().contains('e') { return Want::Unjudged("typed-non-integer"); }
      typed_int_expect(kind, digits, false, neg)
    }
    "Rational" => {
      let (p, q) = match body.split_once('/') { Some(x) => x, None => return Want::Unjudged("no-slash") };
      let (p, q): (i128, i128) = match (strip_us(p).parse(), strip_us(q).parse()) { (Ok(p), Ok(q)) => (p, q), _ => return Want::Unjudged("unparsable") };
      if q == 0 { return Want::MustError; }
      match Frac::new(if neg { -p } else { p }, q) { Some(f) if f.fits_i64() => Want::Exact(Canon::Num("r64".into(), f.text())), _ => Want::Unjudged("unrepresentable") }
    }
    "Complex" => {
      let s = strip_us(t);
      let s = s.trim_end_matches(|c| c == 'i' || c == 'j');
      let pos = s.char_indices().skip(1).find(|(_, c)| *c == '+' || *c == '-').map(|(i, _)| i);
      // each part may be written in any real-number form: decimal / float, rational p/q, hexadecimal, binary, octal
      fn part(t: &str) -> f64 {
        let (sign, body) = match t.strip_prefix('-') { Some(b) => (-1.0, b), None => (1.0, t.strip_prefix('+').unwrap_or(t)) };
        let v = if let Some((p, q)) = body.split_once('/') { match (p.parse::<f64>(), q.parse::<f64>()) { (Ok(p), Ok(q)) if q != 0.0 => p / q, _ => f64::NAN } }
          else if let Some(h) = body.strip_prefix("0x") { i64::from_str_radix(h, 16).map(|x| x as f64).unwrap_or(f64::NAN) }
          else if let Some(h) = body.strip_prefix("0b") { i64::from_str_radix(h, 2).map(|x| x as f64).unwrap_or(f64::NAN) }
          else if let Some(h) = body.strip_prefix("0o") { i64::from_str_radix(h, 8).map(|x| x as f64).unwrap_or(f64::NAN) }
          else { body.parse().unwrap_or(f64::NAN) };
        sign * v
      }
      let (re, im): (f64, f64) = match pos { Some(p) => (part(&s[..p]), part(&s[p..])), None => (0.0, part(s)) };
      if re.is_nan() || im.is_nan() { return Want::Unjudged("unparsable"); }
      Want::Exact(Canon::Num("c64".into(), format!("{},{}", f64_text(re), f64_text(im))))
    }
    _ => Want::Unjudged("other-production"),
  }
}

/// which literal production the grammar chose (from the parse tree)
pub fn production_of(src: &str) -> Option<&'static str> {
  let tree = parse_cached(src)?;
  let dbg = format!("{:?}", tree);
  // the right-hand side literal is the last Number in the statement
  let order = ["Complex(", "Scientific(", "Rational(", "Hexadecimal(", "Octal(", "Binary(", "Decimal(", "TypedInteger(", "Float(", "Integer("];
  let names = ["Complex", "Scientific", "Rational", "Hexadecimal", "Octal", "Binary", "Decimal", "TypedInteger", "Float", "Integer"];
  if !dbg.contains("Number(") && !dbg.contains("TypedLiteral(") { return Some("not-a-number"); }
  for (o, n) in order.iter().zip(names.iter()) { if dbg.contains(o) { return Some(n); } }
  Some("not-a-number")
}

impl UnitRunner for C13 {
  fn unit(&mut self, _payload: &str, unit: u64, out: &mut WorkerOut) {
    let lo = (unit * CHUNK) as usize;
    let hi = (lo + CHUNK as usize).min(self.lits.len());
    let mut s = Session::new();
    let mut respell: Vec<(usize, String, String, Canon, String)> = vec![];
    for (n, l) in self.lits[lo..hi].iter().enumerate() {
      out.evaluations += 1;
      let stmt = match l.annot { Some(k) => format!("x{}<{}> := {}", n, k, l.text), None => format!("x{} := {}", n, l.text) };
      let prod = match production_of(&stmt) { Some(p) => p, None => { out.count("rejected_by_grammar"); continue; } };
      if prod == "not-a-number" { out.count("parsed_as_something_else"); out.set("not_numbers", &l.text); continue; }
      let o = s.run(&stmt);
      let case = match l.annot { Some(k) => format!("x<{}> := {}", k, l.text), None => format!("x := {}", l.text) };
      let want = expectation(l, prod);
      let locus = format!("{}{}", l.family, l.annot.map(|k| format!(":{}", if is_float(k) { "float" } else if is_unsigned(k) { "unsigned" } else { "signed" })).unwrap_or_default());
      out.set("productions", prod);
      match (&want, &o) {
        (_, Outcome::Panic(m)) => out.fail(format!("C13|panic|{}", locus), case, m.clone()),
        (Want::Unjudged(why), _) => { out.count(&format!("unjudged:{}", why)); }
        (Want::Exact(c), Outcome::Value(g)) => { out.nontrivial += 1; if c != g { out.fail(format!("C13|wrong-value|{}", locus), case, format!("spelled value {} (production {}), evaluated to {}", c.short(), prod, g.short())); } }
        (Want::Exact(c), _) => { out.nontrivial += 1; out.fail(format!("C13|accepted-but-error|{}", locus), case, format!("the grammar accepts it as {} denoting {}, evaluation gives {}", prod, c.short(), o.short())); }
        (Want::ExactOrError(c), Outcome::Value(g)) => { out.nontrivial += 1; if c != g { out.fail(format!("C13|unrelated-value|{}", locus), case, format!("does not fit its kind: must be the documented clamp {} or an error, got {}", c.short(), g.short())); } }
        (Want::ExactOrError(_), _) => { out.nontrivial += 1; }
        (Want::MustError, Outcome::Value(g)) => { out.nontrivial += 1; out.fail(format!("C13|unrelated-value|{}", locus), case, format!("denotes no number (zero denominator / digit outside the base) but evaluated to {}", g.short())); }
        (Want::MustError, _) => { out.nontrivial += 1; }
      }
      // the same spelling in other positions denotes the same number: as a matrix element, inside parentheses, in a tuple, as a set element
      // and as a call argument (unannotated, non-negative spellings; where the spelling evaluates alone and the context is accepted)
      if l.annot.is_none() && !l.text.starts_with('-') {
        if let Outcome::Value(alone) = &o {
          let contexts: [(&str, String); 5] = [("matrix-element", format!("c{}a := [{} {}]", n, l.text, l.text)), ("parenthesised", format!("c{}b := ({})", n, l.text)), ("tuple-element", format!("c{}c := ({}, 1)", n, l.text)),
            ("set-element", format!("c{}d := {{{}}}", n, l.text)), ("matrix-column", format!("c{}e := [{}; {}]", n, l.text, l.text))];
          for (cname, cstmt) in contexts.iter() {
            out.evaluations += 1;
            let oc = s.run(cstmt);
            let elems: Option<Vec<Canon>> = match &oc { Outcome::Value(Canon::Matrix(_, _, _, e, _)) => Some(e.clone()), Outcome::Value(Canon::Tuple(e)) => Some(vec![e[0].clone()]), Outcome::Value(Canon::Set(_, e, _)) => Some(e.clone()), Outcome::Value(c @ Canon::Num(..)) => Some(vec![c.clone()]), _ => None };
            match elems {
              Some(es) if !es.is_empty() => { out.nontrivial += 1; if es.iter().any(|e| e != alone) { out.fail(format!("C13|context-changes-value|{}:{}", cname, locus), cstmt.replace(&format!("c{}", n), "c"), format!("alone the literal is {}, in this position {}", alone.short(), oc.short())); } else { out.count(&format!("context_agrees:{}", cname)); } }
              _ => { out.count(&format!("context_rejected:{}", cname)); }
            }
          }
        }
      }
      // a literal denotes its number every time it is written: the same spelling again after a mutable variable defined from it was
      // updated in place (+=, then assignment of another value) must still give the value it gave the first time
      if let Outcome::Value(alone) = &o {
        let rhs = stmt.splitn(2, ":= ").nth(1).unwrap_or("").to_string();
        let ann = l.annot.map(|k| format!("<{}>", k)).unwrap_or_default();
        if s.run(&format!("~m{}{} := {}", n, ann, rhs)).is_value() {
          let u1 = s.run(&format!("m{} += m{}", n, n)).is_value();
          let u2 = s.run(&format!("m{} = m{} + m{}", n, n, n)).is_value();
          out.evaluations += 1;
          let again = s.run(&format!("w{}{} := {}", n, ann, rhs));
          match &again {
            Outcome::Value(g) => { out.nontrivial += 1; if g != alone { out.fail(format!("C13|respelled-differs|{}", locus), format!("x := {} ; ~m := {} ; m += m ; m = m + m ; w := {}", rhs, rhs, rhs), format!("first {}, written again after the update {}", alone.short(), g.short())); } else { out.count(if u1 || u2 { "respelled_after_update_agrees" } else { "respelled_agrees(update rejected)" }); } }
            other => out.fail(format!("C13|respelled-differs|{}", locus), format!("x := {} ; ~m := {} ; m += m ; m = m + m ; w := {}", rhs, rhs, rhs), format!("first {}, written again after the update {}", alone.short(), other.short())),
          }
          respell.push((n, ann, rhs, alone.clone(), locus.clone()));
        }
      }
      if (lo + n) % 197 == 0 { out.sample(json!({"literal": stmt.replace(&format!("x{}", n), "x"), "production": prod, "value": o.short()})); }
    }
    // and once more at the end of the session, after every update of the chunk
    for (n, ann, rhs, alone, locus) in respell {
      out.evaluations += 1;
      if let Outcome::Value(g) = s.run(&format!("z{}{} := {}", n, ann, rhs)) { out.nontrivial += 1; if g != alone { out.fail(format!("C13|respelled-differs|{}", locus), format!("x := {} ; (other literals defined and updated in place) ; z := {}", rhs, rhs), format!("first {}, at the end of the session {}", alone.short(), g.short())); } }
    }
  }
}

impl Check for C13 {
  fn id(&self) -> &'static str { "C13" }
  fn level(&self) -> &'static str { "exploration" }
  fn unit_budget(&self, _t: Tier) -> Duration { Duration::from_secs(120) }
  fn drive(&mut self, tier: Tier, cfg: &PoolCfg, rep: &mut Report) {
    let n = self.lits.len() as u64;
    rep.rule = format!("{} literal spellings generated from the number grammar: digit strings (with underscores), every integer-kind boundary and boundary+-1 untyped/suffixed/annotated, I.F and .F floats over a digit alphabet, mantissa x e/E x sign x exponent for scientific, based literals over digit alphabets incl. one digit outside the base and the i64/u64 boundaries, all p/q over a small pool (incl. q=0), complex a+-bi/bj, leading minus; \
      each as `x := <literal>`; the production the grammar chose is read from the parse tree and decides the reference (correctly rounded str::parse for floats/scientific, exact big-integer value for based/suffixed, reduced fraction for rationals); evaluations = spellings; non-trivial = spellings with a fixed reference verdict", n);
    rep.assumptions = vec!["a spelling the grammar reads as something other than a number literal (e.g. `1e3` = integer 1 with kind suffix `e3`) is outside the statement: counted, not judged".into(), "fractional exponents and values that overflow f64 are not judged".into()];
    rep.cov("bounds", json!({"spellings": n}));
    drive_ranges(cfg, rep, range_jobs("", (n + CHUNK - 1) / CHUNK, 1));
    if rep.out.sets.get("productions").map(|s| s.len()).unwrap_or(0) < 9 { rep.vacuity.push("not every literal production was reached".into()); }
  }
}
