//! C09 — the parser is total: any text yields a tree or a located error report, deterministically.
//! unit = a chunk of input strings; every parse runs in a watchdog thread so that a non-terminating parse is named exactly.
use super::*;
use crate::pool::*;
use crate::report::Report;
use crate::subject::*;
use mech_syntax::parser;
use serde_json::json;
use std::panic::{catch_unwind, AssertUnwindSafe};
use std::sync::mpsc::channel;

pub const BASE: [&str; 52] = ["x", "foo", "1", "23", ":=", "=", "~", "[", "]", "{", "}", "(", ")", "<", ">", "|", ";", ",", ".", "..", "..=", ":", "?", "=>", "->", "#", "\"", "```", "--", "%%", "-", "*", "{{", "}}", "\n", " ", "\t", "'", "├", "└", "│", "😀", "e\u{301}", "\r\n", "$$", "+", "/", "@", "_", "&", "!", "//"];
/// every other leaf token of the parser (sigils, arrows, Mika glyphs): paired with everything, tripled with a small core in the quick tier
pub const RARE: [&str; 40] = ["[^", "<<:", ":>>", "http://a", "!!", "![", "(?)>", "(i)>", "(*)>", "(!)>", "(x)>", "(+)>", "~~", "**", "~~~", "__", "§", "⸢", "⸥", ">:", "~>", "?=", "@=", "⇒", "→", "<-", "←", "...", "…", "›", "‹", "⦿", "╭", "╮", "╰", "╯", ">>", "<<", "\\", "\u{a0}"];
pub static TOKENS: once_tokens::Tokens = once_tokens::Tokens;
pub mod once_tokens {
  /// BASE followed by RARE, indexable like a slice
  pub struct Tokens;
  impl Tokens {
    pub fn len(&self) -> usize { super::BASE.len() + super::RARE.len() }
    pub fn get(&self, i: usize) -> &'static str { if i < super::BASE.len() { super::BASE[i] } else { super::RARE[i - super::BASE.len()] } }
    pub fn all(&self) -> Vec<&'static str> { super::BASE.iter().chain(super::RARE.iter()).cloned().collect() }
    pub fn is_rare(&self, i: usize) -> bool { i >= super::BASE.len() }
  }
}

#[derive(Clone, Debug)]
pub struct Obs { pub kind: String, pub digest: u64, pub problems: Vec<(String, String)> }

fn loc_ok(lines: &[usize], row: usize, col: usize) -> bool {
  // 1-indexed; a position may sit on the (implicit) newline that ends a line, or just after the last line
  if row == 0 || col == 0 { return false; }
  if row > lines.len() + 1 { return false; }
  // after the newline the parser appends to the text there is exactly one position: the start of the next row
  if row == lines.len() + 1 { return col == 1; }
  col <= lines[row - 1] + 2
}

/// bodies of the fences whose info string names Mech code (the parser's rule: the text after the opening line up to the next occurrence of the sigil)
pub fn mech_fence_bodies(text: &str) -> Vec<String> {
  let mut out = vec![];
  let t = text.replace("\r\n", "\n");
  let mut pos = 0usize;
  while pos < t.len() {
    let line_end = t[pos..].find('\n').map(|p| pos + p).unwrap_or(t.len());
    let line = &t[pos..line_end];
    let l = line.trim_start_matches(|c| c == ' ' || c == '\t');
    let sig = if l.starts_with("```") { Some("```") } else if l.starts_with("~~~") { Some("~~~") } else { None };
    if let (Some(sig), true) = (sig, line_end < t.len()) {
      let info = l[3..].split('{').next().unwrap_or("").trim();
      let body_start = line_end + 1;
      match t[body_start..].find(sig) {
        Some(p) => {
          if info.starts_with("mech") || info.starts_with("mec") || info.starts_with("🤖") { out.push(t[body_start..body_start + p].to_string()); }
          let after = body_start + p + 3;
          pos = t[after..].find('\n').map(|q| after + q + 1).unwrap_or(t.len());
          continue;
        }
        None => break,
      }
    }
    pos = line_end + 1;
  }
  out
}

/// parse twice, check determinism and every range of an error report
pub fn observe(text: &str) -> Obs {
  let mut problems = vec![];
  let run = |t: &str| catch_unwind(AssertUnwindSafe(|| parser::parse(t)));
  let r1 = run(text);
  let r2 = run(text);
  let render = |r: &Result<mech_core::MResult<mech_core::nodes::Program>, Box<dyn std::any::Any + Send>>| -> (String, String) {
    match r {
      Ok(Ok(t)) => ("tree".into(), format!("{:?}", t)),
      Ok(Err(e)) => ("report".into(), format!("{:?}", e)),
      Err(_) => ("panic".into(), String::new()),
    }
  };
  let (k1, d1) = render(&r1);
  let (k2, d2) = render(&r2);
  if k1 == "panic" { let m = match r1 { Err(p) => panic_msg(p), _ => String::new() }; problems.push(("panic".into(), m.chars().take(160).collect())); return Obs { kind: k1, digest: 0, problems }; }
  if k1 != k2 || d1 != d2 { problems.push(("nondeterministic".into(), "two parses of the same text in one process differ".into())); }
  // "a syntax tree that accounts for the entire input": the body of every Mech code fence is parsed by a nested parser; the tree must
  // not silently leave out what that parser could not read. The same nested parser is run on each fence body (found by a textual scan;
  // judged only when the scan and the tree agree on the number of Mech fences) and must consume it to its end.
  if let Ok(Ok(tree)) = &r1 {
    let bodies = mech_fence_bodies(text);
    if !bodies.is_empty() && d1.matches("FencedMechCode(").count() == bodies.len() {
      let _ = tree;
      for b in bodies {
        let gs = mech_syntax::graphemes::init_source(&b);
        let ps = mech_syntax::ParseString::new(&gs);
        if let Ok(Ok((rest, _))) = catch_unwind(AssertUnwindSafe(|| mech_syntax::parser::mech_code(ps))) {
          let left: String = rest.graphemes[rest.cursor..].concat();
          if !left.trim().is_empty() { problems.push(("tree-omits-input".into(), format!("the tree holds a Mech fence whose body was read only up to {:?}; the rest is in no node and no error is reported", left.trim().chars().take(60).collect::<String>()))); }
        }
      }
    }
  }
  if let Ok(Err(e)) = &r1 {
    // lines of text + "\n" in graphemes (the parser appends one newline)
    let gs = mech_syntax::graphemes::init_source(text);
    let mut lines: Vec<usize> = vec![]; let mut cur = 0usize;
    for g in gs.iter() { if *g == "\n" || *g == "\r\n" || *g == "\r" { lines.push(cur); cur = 0; } else { cur += 1; } }
    if cur > 0 { lines.push(cur); }
    match e.kind_as::<mech_syntax::ParserErrorReport>() {
      Some(rep) => {
        if rep.1.is_empty() { problems.push(("empty-report".into(), "an error report without any error".into())); }
        for ctx in &rep.1 {
          let mut rngs = vec![ctx.cause_rng.clone()]; rngs.extend(ctx.annotation_rngs.iter().cloned());
          for r in rngs {
            let (s, e2) = (&r.start, &r.end);
            if (s.row, s.col) == (0, 0) && (e2.row, e2.col) == (0, 0) { continue; }   // documented "not initialised"
            if !loc_ok(&lines, s.row, s.col) || !loc_ok(&lines, e2.row, e2.col) { problems.push(("range-outside".into(), format!("range {}:{}-{}:{} in a text of {} lines {:?}", s.row, s.col, e2.row, e2.col, lines.len(), lines.iter().take(6).collect::<Vec<_>>()))); }
            else if (s.row, s.col) > (e2.row, e2.col) { problems.push(("range-inverted".into(), format!("range {}:{}-{}:{}", s.row, s.col, e2.row, e2.col))); }
          }
        }
      }
      None => { problems.push(("not-a-report".into(), format!("error kind {}", e.kind_name()))); }
    }
  }
  Obs { kind: k1, digest: fnv(d1.as_bytes()), problems }
}

/// the parse in a watchdog thread: a text that does not come back is reported by name and ends the worker
pub fn observe_guarded(text: &str, budget: std::time::Duration) -> Obs {
  let (tx, rx) = channel();
  let t = text.to_string();
  std::thread::Builder::new().stack_size(64 << 20).spawn(move || { let o = observe(&t); let _ = tx.send(o); }).expect("spawn");
  match rx.recv_timeout(budget) {
    Ok(o) => o,
    Err(std::sync::mpsc::RecvTimeoutError::Timeout) => self_report_hang_and_exit(&format!("parse({:?})", text)),
    Err(_) => Obs { kind: "panic".into(), digest: 0, problems: vec![("panic".into(), "the parsing thread died (stack overflow or abort inside the thread)".into())] },
  }
}

/// count one parsed text and report its problems
fn record(out: &mut WorkerOut, unit: u64, fam: &'static str, text: &str, o: &Obs, cross: bool) {
  out.evaluations += 1;
  if o.kind != "panic" { out.nontrivial += 1; }
  out.count(&format!("outcome:{}", o.kind));
  for (cls, detail) in &o.problems {
    let locus = if cls == "panic" { let d = detail.split(|c: char| c.is_ascii_digit()).next().unwrap_or("").trim().chars().take(60).collect::<String>(); format!("{}:{}", fam, d) } else { fam.to_string() };
    out.fail(format!("C09|{}|{}", cls, locus), format!("parse({:?})", text), detail.clone());
  }
  if cross || fam != "3-token" && fam != "4-token" && fam != "repetition" { out.extra.push(json!({"t": text, "d": format!("{:016x}", o.digest)})); }
  if unit % 577 == 0 && fam == "3-token" && out.samples.len() < 2 { out.sample(json!({"text": text, "outcome": o.kind})); }
}

pub struct C09 { tier: Tier, corpus: Vec<String>, docs: Vec<(String, String)>, /// how many leading corpus entries are synthetic (never thinned)
  n_synth: usize }

/// small Mechdown documents for constructs the repository's own documents do not use: a title with front matter (every key x value form)
pub fn synthetic_documents() -> Vec<String> {
  let mut v = vec![];
  let values = ["Some Name", "**bold** and *it*", "![cap](a.png)", "| ![c](a.png) | ![d](b.png) |", "[link](http://x.y/z)", "2024-01-01", ""];
  for key in ["author", "date", "hero", "kicker", "summary", "next", "previous", "other", "Hero"] {
    for val in values { v.push(format!("Title\n=====\n{}: {}\n=====\n\nBody text.", key, val)); }
  }
  v.push("Title\n=====\nauthor: A B\ndate: 2024\nhero: ![c](a.png)\nsummary: short\n=====\n\nx := 1".into());
  v.push("Title\n=====\nhero: | ![c](a.png) |\nauthor: A\n=====\n".into());
  v.push("Title\n=====\nhero: | ![c](a.png) | ![d](b.png) |\n      | ![e](c.png) | ![f](d.png) |\n=====\n\nText.".into());
  v.push("Title\n=====\nauthor: A".into());
  v
}

fn load_corpus() -> Vec<String> {
  // blocks (blank-line separated) of every .mec file of the repository, at most 160 bytes each
  let mut out = std::collections::BTreeSet::new();
  fn walk(d: &std::path::Path, out: &mut std::collections::BTreeSet<String>) {
    if let Ok(rd) = std::fs::read_dir(d) {
      let mut es: Vec<_> = rd.filter_map(|e| e.ok()).collect(); es.sort_by_key(|e| e.path());
      for e in es { let p = e.path(); if p.is_dir() { let n = p.file_name().and_then(|x| x.to_str()).unwrap_or(""); if n != "target" && n != ".git" { walk(&p, out); } } else if p.extension().and_then(|x| x.to_str()) == Some("mec") {
        if let Ok(s) = std::fs::read_to_string(&p) { for b in s.replace("\r\n", "\n").split("\n\n") { let b = b.trim_matches('\n'); if !b.is_empty() && b.len() <= 160 { out.insert(b.to_string()); } } }
      } }
    }
  }
  walk(std::path::Path::new("/repo"), &mut out);
  out.into_iter().collect()
}

impl C09 {
  pub fn new(tier: Tier) -> C09 { let lim = tier.pick(12_000, usize::MAX); C09 { tier, n_synth: synthetic_documents().len(), corpus: { let mut c = synthetic_documents(); c.extend(load_corpus()); c }, docs: super::c08::repo_documents().into_iter().filter(|(_, t)| t.len() <= lim).collect() } }
  fn n_doc_units(&self) -> u64 { self.docs.len() as u64 }
  /// one unit per (context, first slot token)
  fn n_slot_units(&self) -> u64 { (SLOT_CONTEXTS.len() * SLOT_TOKENS.len()) as u64 }
  fn n_tok_units(&self) -> u64 { (TOKENS.len() * TOKENS.len()) as u64 }
  fn n_rep_units(&self) -> u64 { (TOKENS.len() * REP_SEPARATORS.len()) as u64 }
  fn corpus_stride(&self) -> usize { self.tier.pick(48, 2) }
  fn n_corpus_units(&self) -> u64 { 4 * (self.n_synth + (self.corpus.len() - self.n_synth + self.corpus_stride() - 1) / self.corpus_stride()) as u64 }
}

/// contexts with one hole: the hole is filled with every short token string, so that malformed patterns, subscripts, kinds,
/// arguments ... are parsed where the grammar expects them (a stray token at top level only reaches the prose parser)
pub const SLOT_CONTEXTS: [(&str, &str, bool); 16] = [
  ("match-arm-pattern", "y := x?\n  | @ => 1\n  | * => 0.", true), ("generator-pattern", "q := {h | @ <- xs}", true),
  ("function-arm-pattern", "f(a<f64>) => <f64>\n  ├ @ => 1\n  └ * => 0.", true), ("state-pattern", "#M(n<u64>) -> :A(n)\n  :A(@) -> :D(n)\n  :D(n) => n.", true),
  ("subscript", "y := x[@]", false), ("kind-annotation", "x<@> := 1", false), ("call-arguments", "y := f(@)", false), ("table-header", "x := | @ | 1 |", false),
  ("braces", "x := {@}", false), ("range-end", "x := 1..@", false), ("guard", "y := x?\n  | n, @ => 1\n  | * => 0.", false),
  // comments are re-parsed as rich text by a nested parser: on the first line, on a later line, after a statement, in both spellings
  ("comment-first-line", "-- note @ end\nx := 1", false), ("comment-later-line", "x := 1\ny := 2\n-- note @ end\nz := 3", false), ("slash-comment-later-line", "x := 1\n// note @ end", false),
  ("comment-after-statement", "x := 1\ny := 2 -- note @", false), ("paragraph-later-line", "First paragraph.\n\nSecond one with @ inside.", false)];
pub const SLOT_TOKENS: [&str; 24] = ["h", "t", "1", "[", "]", "(", ")", "{", "}", "|", ",", "...", "…", ":a", "*", " ", ":", "<", ">", "_", "\"s\"", "-", "..", "="];
const SLOT_CORE: [&str; 8] = ["[", "]", "h", "|", ",", "(", ")", "..."];

pub const REP_SEPARATORS: [&str; 7] = ["", ".", ",", " ", "|", ";", "\n"];
const NEST: [(&str, &str, &str); 8] = [("[", "1", "]"), ("(", "1", ")"), ("{", "1", "}"), ("x := [", "1 2", "]"), ("f(", "x", ")"), ("{{", "x", "}}"), ("\"", "a", "\""), ("<", "f64", ">")];

impl UnitRunner for C09 {
  fn unit(&mut self, payload: &str, unit: u64, out: &mut WorkerOut) {
    let budget = std::time::Duration::from_secs(self.tier.pick(20, 40));
    let nt = TOKENS.len() as u64;
    let mut inputs: Vec<(String, &'static str)> = vec![];
    if unit < self.n_tok_units() {
      let (a, b) = (TOKENS.get((unit / nt) as usize), TOKENS.get((unit % nt) as usize));
      let rare = TOKENS.is_rare((unit / nt) as usize) || TOKENS.is_rare((unit % nt) as usize);
      if unit % nt == 0 { inputs.push((a.to_string(), "1-token")); }
      inputs.push((format!("{}{}", a, b), "2-token"));
      // the same pair on the second of three lines, under each line terminator (error ranges count lines: a CRLF is one terminator)
      for nl in ["\r\n", "\r", "\n"] { inputs.push((format!("x := 1{nl}{a}{b}{nl}z := 3", nl = nl, a = a, b = b), "line-endings")); }
      if unit == 0 {
        // every spelling of a code fence: sigil x tag (incl. the emoji spelling and suffixes) x body x closer
        for sigil in ["```", "~~~", "````"] { for tag in ["", "mech", "mec", "🤖", "mech:ns", "mec:ns", "🤖:ns", "mech:hidden", "🤖:hidden", "mech:disabled", "🤖:disabled", "🤖🤖", "mechdown", "python", "mech {a: 1}", "🤖 {a: 1}", "é", "日本:x"] {
          for body in ["x := 1", "x := )", "", "x := 1\ny := ("] { for close in [true, false] { for nl in ["\n", "\r\n"] {
            inputs.push((format!("{s}{t}{nl}{b}{nl}{c}{nl}after := 2", s = sigil, t = tag, nl = nl, b = body, c = if close { sigil } else { "" }), "fence-tags"));
          } } }
        } }
      }
      // quick: the third token ranges over the 26 construct-opening/closing tokens; thorough: over the whole alphabet
      let core3: Vec<&str> = TOKENS.all().into_iter().filter(|t| self.tier == Tier::Thorough || (!rare && ["[", "]", "{", "}", "(", ")", "|", "\"", "```", "--", ":=", "\n", "x", "1", ";", "{{", "$$", "<"].contains(t)) || (rare && ["[", "(", "\n", "x", "|", "\"", "⸥", "⸢"].contains(t))).collect();
      for c in core3.iter() { inputs.push((format!("{}{}{}", a, b, c), "3-token")); }
      if self.tier == Tier::Thorough {
        // four tokens over the tokens that open or close a construct
        let core: Vec<&str> = TOKENS.all().into_iter().filter(|t| ["[", "]", "{", "}", "(", ")", "<", ">", "|", "\"", "```", "--", ":=", "\n", " ", "x", "1", ";", ",", "#", "?", "=>", "->", ".", "{{", "}}"].contains(t)).collect();
        if core.contains(&a) && core.contains(&b) { for c in &core { for d in &core { inputs.push((format!("{}{}{}{}", a, b, c, d), "4-token")); } } }
      }
    } else if unit < self.n_tok_units() + self.n_corpus_units() {
      // one unit per (block, mutation kind) so that a block that is slow to parse does not serialise 600 parses
      let cu = (unit - self.n_tok_units()) as usize;
      let j = cu / 4;
      let (i, kind) = (if j < self.n_synth { j } else { self.n_synth + (j - self.n_synth) * self.corpus_stride() }, cu % 4);
      if let Some(sn) = self.corpus.get(i) {
        if kind == 0 { inputs.push((sn.clone(), "corpus")); }
        let gs: Vec<&str> = mech_syntax::graphemes::init_tag(sn);
        for p in 0..gs.len() {
          match kind {
            0 => { let mut del = gs.clone(); del.remove(p); inputs.push((del.concat(), "corpus-delete")); }
            1 => { let mut dup = gs.clone(); dup.insert(p, gs[p]); inputs.push((dup.concat(), "corpus-duplicate")); }
            2 => { if p + 1 < gs.len() { let mut sw = gs.clone(); sw.swap(p, p + 1); inputs.push((sw.concat(), "corpus-swap")); } }
            _ => { inputs.push((gs[..p].concat(), "corpus-prefix")); }
          }
        }
      }
    } else {
      // nesting families up to depth 5 (deeper is exponential in this parser: depth is part of the stated bound)
      // one unit per (family, depth): deep nesting is slow, the units run in parallel
      let k = (unit - self.n_tok_units() - self.n_corpus_units()) as usize;
      let (fam_i, depth) = (k / 5, k % 5 + 1);
      if k < NEST.len() * 5 && depth > self.tier.pick(4usize, 5usize) { return; }
      if let Some((o, m, c)) = NEST.get(fam_i) { for d in depth..=depth { inputs.push((format!("{}{}{}", o.repeat(d), m, c.repeat(d)), "nesting")); inputs.push((format!("{}{}", o.repeat(d), m), "nesting-unclosed")); inputs.push((format!("{}{}", m, c.repeat(d)), "nesting-unopened")); } }
      // slot families: every token string of length <= 2 (quick) / 3 (thorough) in every context; length 3 (quick) / 4 (thorough) over the core tokens;
      // in the four pattern contexts also length 4 over the core tokens in the quick tier
      if k >= NEST.len() * 5 + self.docs.len() {
        let su = k - NEST.len() * 5 - self.docs.len();
        let (ci, ti) = (su / SLOT_TOKENS.len(), su % SLOT_TOKENS.len());
        if let Some((_, ctx, is_pattern)) = SLOT_CONTEXTS.get(ci) {
          let a = SLOT_TOKENS[ti];
          let mut fills: Vec<String> = vec![a.to_string()];
          for b in SLOT_TOKENS.iter() { fills.push(format!("{}{}", a, b)); if self.tier == Tier::Thorough { for c in SLOT_TOKENS.iter() { fills.push(format!("{}{}{}", a, b, c)); } } }
          if SLOT_CORE.contains(&a) {
            for b in SLOT_CORE.iter() { for c in SLOT_CORE.iter() {
              if self.tier == Tier::Quick { fills.push(format!("{}{}{}", a, b, c)); }
              if self.tier == Tier::Thorough || *is_pattern { for d in SLOT_CORE.iter() { fills.push(format!("{}{}{}{}", a, b, c, d)); } }
            } }
          }
          for f in fills { inputs.push((ctx.replace('@', &f), "slot")); }
        }
      }
      // whole documents of the repository (and, thorough, every prefix of the smaller ones that ends at a line end)
      if k >= NEST.len() * 5 && k < NEST.len() * 5 + self.docs.len() {
        if let Some((_, text)) = self.docs.get(k - NEST.len() * 5) {
          inputs.push((text.clone(), "document"));
          if self.tier == Tier::Thorough && text.len() <= 6000 {
            let mut at = 0;
            for line in text.split_inclusive('\n') { at += line.len(); if at < text.len() { inputs.push((text[..at].to_string(), "document-line-prefix")); } }
          }
        }
      }
    }
    // repetition families: one token repeated k times with a separator, bare and inside bracket contexts, k ascending through the
    // 8-bit boundary. The parser backtracks exponentially on some repeated tokens (emphasis, arm glyphs ...): a series is left as soon
    // as the measured growth per repeat predicts more than 5 s for the next count (recorded in evidence, like nesting beyond the bound);
    // a parse that never returns shows at the smallest counts and is reported as a hang
    let base_total = self.n_tok_units() + self.n_corpus_units() + NEST.len() as u64 * 5 + self.n_doc_units() + self.n_slot_units();
    if unit >= base_total {
      let ru = (unit - base_total) as usize;
      let (ti, si) = (ru / REP_SEPARATORS.len(), ru % REP_SEPARATORS.len());
      if ti >= TOKENS.len() { return; }
      let (t, sep) = (TOKENS.get(ti), REP_SEPARATORS[si]);
      // quick: 4 of the 7 separators, 3 of the 5 contexts, fewer counts
      if self.tier == Tier::Quick && !["", ".", " ", "\n"].contains(&sep) { return; }
      // counts grow by at most a factor 1.5 per step, so that the time of the next count can be bounded from the last two
      let counts: Vec<usize> = self.tier.pick(vec![2, 3, 4, 5, 6, 7, 8, 9, 10, 12, 14, 16, 20, 24, 32, 48, 64, 96, 128, 192, 255, 256],
        vec![2, 3, 4, 5, 6, 7, 8, 9, 10, 11, 12, 14, 16, 18, 20, 24, 28, 32, 40, 48, 64, 96, 128, 192, 255, 256, 257, 384, 512, 768, 1000]);
      let contexts: Vec<(&str, &str)> = self.tier.pick(vec![("", ""), ("(", ") T"), ("x := [", "]")], vec![("", ""), ("(", ") T"), ("x := [", "]"), ("{", "}"), ("x<", "> := 1")]);
      for (o, c) in contexts {
        let mut last: Option<(usize, f64)> = None;
        for (ci, k) in counts.iter().enumerate() {
          let body = std::iter::repeat(t).take(*k).collect::<Vec<_>>().join(sep);
          let text = format!("{}{}{}", o, body, c);
          // quick: the long counts only with the two tightest separators
          if self.tier == Tier::Quick && *k > 64 && !["", "."].contains(&sep) { break; }
          let openers = text.chars().filter(|ch| matches!(ch, '[' | '{' | '(' | '<')).count();
          if openers > self.tier.pick(4, 5) { out.count("skipped_nesting_beyond_bound"); break; }
          let t0 = std::time::Instant::now();
          let ob = observe_guarded(&text, budget + std::time::Duration::from_secs(100 + (text.len() / 50) as u64));
          let dt = t0.elapsed().as_secs_f64();
          record(out, unit, "repetition", &text, &ob, false);
          if let (Some((k1, t1)), Some(next)) = (last, counts.get(ci + 1)) {
            // with steps of a constant factor an exponential cost multiplies its step ratio by itself^0.5 each time, a polynomial one keeps it:
            // ratio^1.5 bounds the next step for both; a series is left when twice that bound exceeds 30 s (the budget is 120 s and more)
            let _ = next;
            let ratio = dt / t1.max(0.01);
            if ratio > 1.0 && dt * ratio.powf(1.5) * 2.0 > 30.0 { out.set("repetition_series_left_for_superlinear_parse_time", &format!("{:?} repeated with separator {:?} inside {:?}..{:?}: {:.2} s at {} repeats, x{:.1} since {} repeats", t, sep, o, c, dt, k, ratio, k1)); break; }
          }
          last = Some((*k, dt));
        }
      }
      return;
    }
    let cross = payload == "pass2";
    for (text, fam) in inputs {
      // the parser is exponential in bracket nesting: more than 4 (quick) / 5 (thorough) opening brackets are outside the stated bound
      let openers = text.chars().filter(|c| matches!(c, '[' | '{' | '(' | '<')).count();
      if fam != "corpus" && fam != "corpus-prefix" && fam != "corpus-delete" && fam != "corpus-swap" && fam != "corpus-duplicate" && fam != "document" && fam != "document-line-prefix" && openers > self.tier.pick(4, 5) { out.count("skipped_nesting_beyond_bound"); continue; }
      // the parser needs a minute and more for the repository's largest test documents: the time allowed grows with the text
      let o = observe_guarded(&text, budget + std::time::Duration::from_secs((text.len() / 50) as u64));
      record(out, unit, fam, &text, &o, cross);
    }
  }
}

impl Check for C09 {
  fn id(&self) -> &'static str { "C09" }
  fn level(&self) -> &'static str { "exploration" }
  fn unit_budget(&self, t: Tier) -> Duration { Duration::from_secs(t.pick(240, 3600)) }
  fn drive(&mut self, tier: Tier, cfg: &PoolCfg, rep: &mut Report) {
    let total = self.n_tok_units() + self.n_corpus_units() + NEST.len() as u64 * 5 + self.n_doc_units() + self.n_slot_units() + self.n_rep_units();
    let (a, b) = (self.n_tok_units(), self.n_corpus_units());
    rep.describe = Some(Box::new(move |_p, u| (if u < a { "token-strings" } else if u < a + b { "corpus" } else { "nesting-or-document" }.to_string(), format!("unit {} (the worker names the exact text when it times a parse out)", u))));
    // pass 1: everything; pass 2 (other worker processes): one-/two-token strings, corpus and nesting again, digests compared
    let mut digests: Vec<std::collections::BTreeMap<String, String>> = vec![Default::default(), Default::default()];
    for pass in 0..2 {
      let jobs = if pass == 0 { range_jobs("pass1", total, 1) } else { let mut j = range_jobs("pass2", total, 1); j.retain(|x| (x.lo >= a && x.lo < a + b) || (x.lo < a && x.lo % 13 == 0)); j };
      let mut found = vec![];
      run_jobs(cfg, jobs, &mut |ev| { if let Event::Done(_, o) = &ev { for x in &o.extra { found.push((x["t"].as_str().unwrap_or("").to_string(), x["d"].as_str().unwrap_or("").to_string())); } } rep.absorb(ev); });
      rep.out.extra.clear();
      for (t, d) in found { digests[pass].insert(t, d); }
    }
    let mut compared = 0u64;
    for (t, d) in &digests[1] { if let Some(d0) = digests[0].get(t) { compared += 1; if d0 != d { rep.out.failures.push(Failure { key: "C09|nondeterministic|across-processes".into(), case: format!("parse({:?})", t), detail: "the outcome (tree or report rendering) differs between two processes".into(), payload: "pass1".into(), unit: 0 }); } } }
    rep.cov("texts_compared_across_processes", json!(compared));
    rep.rule = format!("every string of 1..2 tokens, and of 3 tokens with the third from 18 construct tokens (8 for pairs holding one of the 40 rarer sigils) (quick) / from the whole alphabet (thorough), over a {}-token alphabet (identifiers, digits, every bracket, operators, quotes, fences, comment sigils, box-drawing arm glyphs, an emoji, a combining sequence, CRLF, and every other leaf token of the parser: callout / float / prompt / footnote / image / highlight sigils, arrows, Mika glyphs, ...){}; a synthetic set of titles with front matter (every key x value form) and {} blocks of the repository's own .mec files (every {}th block of <= 160 bytes) with every single-grapheme deletion, duplication, adjacent swap and every prefix; bracket/quote nesting families to depth 4 (quick) / 5 (thorough); slot families (11 contexts with one hole - match-arm, generator, function-arm and state patterns, subscript, kind annotation, call arguments, table header, braces, range end, guard - filled with every string of <= 2 (quick) / 3 (thorough) of 24 tokens and of 3 / 4 of 8 core tokens, 4 in the pattern contexts also in the quick tier); repetition families (every token repeated 2..12, 16, 32, 64, 255, 256 times with 4 separators in 3 contexts (quick) / 2..24, 28 .. 257, 512, 1000 times with 7 separators in 5 contexts (thorough); a series is left, and listed in the evidence, as soon as the growth between the last two counts bounds the next parse above 15 s); every whole .mec document of the repository up to 12 KB (quick) / of any size (thorough) and, thorough, every prefix of the documents up to 6 KB that ends at a line end; \
      each text is parsed twice in a watchdog thread ({} s budget): the outcome must be a tree or an error report, never a panic or a non-terminating parse; every cause and annotation range of a report must lie inside text+newline with start <= end; the two parses and a parse in another worker process must render identically; evaluations = texts; non-trivial = texts that produced a tree or a report",
      TOKENS.len(), if tier == Tier::Thorough { " and every 4-token string over the 26 construct-opening/closing tokens" } else { "" }, self.n_corpus_units(), self.corpus_stride(), tier.pick(20, 40));
    rep.assumptions = vec!["a parse is called non-terminating when it exceeds the stated budget plus one second per 50 bytes of text (tests/compare.mec, 25 KB, takes 100 s); nesting deeper than 5 is outside the bound (the parser is exponential in nesting depth)".into(), "rendering an error report (TextFormatter::format_error) is not part of this check".into(), "'reads nothing but the text' is checked structurally: parse() receives only the &str and the harness gives it no file or interpreter".into()];
    rep.cov("bounds", json!({"token_alphabet": TOKENS.len(), "corpus_blocks": self.corpus.len(), "units": total}));
    if rep.out.nontrivial < 10000 { rep.vacuity.push("too few texts parsed".into()); }
  }
}
