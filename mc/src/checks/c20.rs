//! C20 — source includes expand to the spliced text, cycles are detected. unit = one include graph (subset of the k*k
//! possible edges); inside: directory layouts x decorations of one include line; files are written to a scratch directory
//! and loaded with the real `mech::read_mech_source_file`.
use super::*;
use crate::pool::*;
use crate::report::Report;
use crate::subject::*;
use mech_core::MechSourceCode;
use serde_json::json;
use std::collections::BTreeSet;
use std::panic::{catch_unwind, AssertUnwindSafe};
use std::path::PathBuf;

pub const DIRS: [&str; 3] = ["", "d1", "d1/d2"];

fn rel(from_dir: &str, to_dir: &str, file: &str) -> String {
  let f: Vec<&str> = from_dir.split('/').filter(|s| !s.is_empty()).collect();
  let t: Vec<&str> = to_dir.split('/').filter(|s| !s.is_empty()).collect();
  let mut common = 0;
  while common < f.len() && common < t.len() && f[common] == t[common] { common += 1; }
  let mut parts: Vec<String> = vec![];
  for _ in common..f.len() { parts.push("..".into()); }
  for p in &t[common..] { parts.push(p.to_string()); }
  parts.push(file.to_string());
  parts.join("/")
}

#[derive(Clone, Copy, Debug, PartialEq)]
pub enum Deco { None, LeadingBlanks, TrailingBlanksTab, InnerBlanks, NoFinalNewline, Crlf, InBacktickFence, InTildeFence, Fence4ClosedBy3, Fence4ClosedBy5, AfterUnclosedFence,
  FenceIndent3, FenceIndent4, TextBefore, TextAfter, NotMecExpr, MissingTarget, UpperCaseExt, TwiceSameLine, IncludeLineIndent4, FenceWithInfo, TildeInsideBacktick, FenceHoldingOpenerLikeLine, TildeFenceHoldingRunWithText }
pub const DECOS: [Deco; 24] = [Deco::FenceHoldingOpenerLikeLine, Deco::TildeFenceHoldingRunWithText, Deco::None, Deco::LeadingBlanks, Deco::TrailingBlanksTab, Deco::InnerBlanks, Deco::NoFinalNewline, Deco::Crlf, Deco::InBacktickFence, Deco::InTildeFence, Deco::Fence4ClosedBy3, Deco::Fence4ClosedBy5,
  Deco::AfterUnclosedFence, Deco::FenceIndent3, Deco::FenceIndent4, Deco::TextBefore, Deco::TextAfter, Deco::NotMecExpr, Deco::MissingTarget, Deco::UpperCaseExt, Deco::TwiceSameLine, Deco::IncludeLineIndent4, Deco::FenceWithInfo, Deco::TildeInsideBacktick];

/// how the decorated include line is written in the file, and whether the reference expands it
/// returns (text of the region replacing the plain line "{p}\n", reference: list of pieces)
pub enum Piece { Lit(String), Include }

pub fn decorate(d: Deco, p: &str) -> (String, Vec<Piece>, Option<&'static str>) {
  match d {
    Deco::None => (format!("{{{}}}\n", p), vec![Piece::Include, Piece::Lit("\n".into())], None),
    Deco::LeadingBlanks => (format!("  {{{}}}\n", p), vec![Piece::Include, Piece::Lit("\n".into())], None),
    Deco::TrailingBlanksTab => (format!("{{{}}} \t\n", p), vec![Piece::Include, Piece::Lit("\n".into())], None),
    Deco::InnerBlanks => (format!("{{ {} }}\n", p), vec![Piece::Include, Piece::Lit("\n".into())], None),
    Deco::NoFinalNewline => (format!("{{{}}}", p), vec![Piece::Include], Some("last-line")),
    Deco::Crlf => (format!("{{{}}}\r\n", p), vec![Piece::Include, Piece::Lit("\n".into())], None),
    Deco::InBacktickFence => { let t = format!("```\n{{{}}}\n```\n", p); (t.clone(), vec![Piece::Lit(t)], None) }
    Deco::InTildeFence => { let t = format!("~~~\n{{{}}}\n~~~\n", p); (t.clone(), vec![Piece::Lit(t)], None) }
    Deco::Fence4ClosedBy3 => { let t = format!("````\n```\n{{{}}}\n````\n", p); (t.clone(), vec![Piece::Lit(t)], None) }
    Deco::Fence4ClosedBy5 => { let a = "````\ncode\n`````\n".to_string(); (format!("{}{{{}}}\n", a, p), vec![Piece::Lit(a), Piece::Include, Piece::Lit("\n".into())], None) }
    Deco::AfterUnclosedFence => { let t = format!("```\n{{{}}}\n", p); (t.clone(), vec![Piece::Lit(t)], Some("rest-of-file-in-fence")) }
    Deco::FenceIndent3 => { let t = format!("   ```\n{{{}}}\n   ```\n", p); (t.clone(), vec![Piece::Lit(t)], None) }
    Deco::FenceIndent4 => { let a = "    ```\n".to_string(); let b = "    ```\n".to_string(); (format!("{}{{{}}}\n{}", a, p, b), vec![Piece::Lit(a), Piece::Include, Piece::Lit("\n".into()), Piece::Lit(b)], None) }
    Deco::TextBefore => { let t = format!("see {{{}}}\n", p); (t.clone(), vec![Piece::Lit(t)], None) }
    Deco::TextAfter => { let t = format!("{{{}}} here\n", p); (t.clone(), vec![Piece::Lit(t)], None) }
    Deco::NotMecExpr => { let t = "{6 * 7}\n".to_string(); (t.clone(), vec![Piece::Lit(t)], None) }
    Deco::MissingTarget => (format!("{{nofile.mec}}\n{{{}}}\n", p), vec![], Some("missing")),
    Deco::UpperCaseExt => { let t = format!("{{{}}}\n", p.replace(".mec", ".MEC")); (t.clone(), vec![Piece::Lit(t)], None) }
    Deco::TwiceSameLine => { let t = format!("{{{}}} {{{}}}\n", p, p); (t.clone(), vec![], Some("unjudged")) }
    Deco::IncludeLineIndent4 => (format!("    {{{}}}\n", p), vec![Piece::Include, Piece::Lit("\n".into())], None),
    // inside an open fence a run of fence characters that is followed by text is content, not a closer
    Deco::FenceHoldingOpenerLikeLine => { let t = format!("```\n```mech\n{{{}}}\n```\n", p); (t.clone(), vec![Piece::Lit(t)], None) }
    Deco::TildeFenceHoldingRunWithText => { let t = format!("~~~~~\n~~~~~ example ~~~~~\n{{{}}}\n~~~~~\n", p); (t.clone(), vec![Piece::Lit(t)], None) }
    Deco::FenceWithInfo => { let t = format!("```mech:disabled\n{{{}}}\n```\n", p); (t.clone(), vec![Piece::Lit(t)], None) }
    Deco::TildeInsideBacktick => { let t = format!("```\n~~~\n{{{}}}\n```\n", p); (t.clone(), vec![Piece::Lit(t)], None) }
  }
}

pub struct C20 { tier: Tier, scratch: PathBuf }
impl C20 {
  pub fn new(tier: Tier) -> C20 {
    // tiny transient files: use the RAM-backed /dev/shm when it exists (orders of magnitude less system time), else target/
    let scratch = if std::path::Path::new("/dev/shm").is_dir() { PathBuf::from(format!("/dev/shm/mc-c20-scratch/{}", std::process::id())) } else { PathBuf::from(format!("{}/target/c20-scratch/{}", crate::report::verif_dir(), std::process::id())) };
    C20 { tier, scratch }
  }
  fn k(&self) -> usize { self.tier.pick(3, 4) }
}

pub enum Want { Text(String), Cycle, Missing, Either, Unjudged }

/// reference expander over the include graph: depth-first substitution with the stack of files being expanded
fn expand(i: usize, k: usize, edges: u32, deco_on_root: &Option<(usize, Vec<Piece>, Option<&'static str>)>, stack: &mut Vec<usize>, outcome: &mut (bool, bool), style: usize) -> String {
  if stack.contains(&i) { outcome.0 = true; return String::new(); }
  stack.push(i);
  if style == 2 && i != 0 && (0..k).all(|j| edges >> (i * k + j) & 1 == 0) { stack.pop(); return String::new(); }   // an empty leaf file
  let mut s = format!("T{}-begin\n", i);
  let mut first = true;
  for j in 0..k {
    if edges >> (i * k + j) & 1 == 0 { continue; }
    let decorated = i == 0 && first && deco_on_root.is_some();
    first = false;
    if decorated {
      let (_, pieces, flag) = deco_on_root.as_ref().unwrap();
      if *flag == Some("missing") { outcome.1 = true; }
      for p in pieces { match p { Piece::Lit(t) => s.push_str(t), Piece::Include => { let e = expand(j, k, edges, deco_on_root, stack, outcome, style); s.push_str(&e); } } }
      if *flag == Some("rest-of-file-in-fence") {
        // everything after the unclosed fence is inside it: the remaining include lines and the end marker are copied verbatim
        for j2 in (j + 1)..k { if edges >> (i * k + j2) & 1 == 1 { s.push_str(&format!("{{@{}}}\n", j2)); } }
        s.push_str(&format!("T{}-end\n", i));
        stack.pop();
        return s;
      }
      if *flag == Some("last-line") { stack.pop(); return s; }
    } else {
      let e = expand(j, k, edges, deco_on_root, stack, outcome, style);
      s.push_str(&e);
      s.push('\n');
    }
  }
  s.push_str(&format!("T{}-end\n", i));
  if style == 1 && i != 0 { s.push_str("```\nx\n```\n"); }   // the file's last line closes a code fence
  stack.pop();
  s
}

impl UnitRunner for C20 {
  fn unit(&mut self, _payload: &str, unit: u64, out: &mut WorkerOut) {
    // payload "names4": four files, two in . and two in d1, numbered per directory - the same spelling {f1.mec} then means ./f1.mec
    // in one file and d1/f1.mec in another (every edge subset; only this layout and naming)
    let names4 = _payload == "names4";
    let k = if names4 { 4 } else { self.k() };
    let edges = unit as u32;
    let layouts: Vec<Vec<usize>> = if names4 { vec![vec![0, 0, 0, 0], vec![0, 0, 1, 1]] } else {
      // directory of each file: f0 in "." always; the others range over the three directories (quick: 5 layouts)
      let mut v = vec![];
      let n = 3usize.pow(k as u32 - 1);
      for m in 0..n { let mut l = vec![0]; let mut x = m; for _ in 1..k { l.push(x % 3); x /= 3; } v.push(l); }
      if self.tier == Tier::Quick { v = vec![v[0].clone(), v[1].clone(), v[2].clone(), v[n / 2].clone(), v[n - 1].clone()]; }
      if self.tier == Tier::Thorough && k == 4 { v = v.into_iter().step_by(3).collect(); }
      v
    };
    let root_has_include = (0..k).any(|j| edges >> j & 1 == 1);
    for (li, layout) in layouts.iter().enumerate() {
      let decos: Vec<Deco> = if root_has_include && (li == 0 || self.tier == Tier::Thorough && li % 4 == 1) { DECOS.to_vec() } else { vec![Deco::None] };
      for d in decos {
       for style in 0..4usize {
        if (style == 1 || style == 2) && !(d == Deco::None && li == 0) { continue; }
        // style 3: file names numbered per directory, so files in different directories share a name (f0.mec in ., in d1, in d1/d2)
        if style == 3 && !(d == Deco::None && li > 0) { continue; }
        if names4 && !(style == 3 && li == 1) { continue; }
        let fname = |i: usize| -> String { if style == 3 { format!("f{}.mec", (0..i).filter(|x| layout[*x] == layout[i]).count()) } else { format!("f{}.mec", i) } };
        out.evaluations += 1;
        // ---- write the files
        let dir = self.scratch.join(format!("g{}l{}", edges, li));
        let _ = std::fs::remove_dir_all(&dir);
        let mut ok = true;
        let mut texts: Vec<String> = vec![];
        let mut deco_ref: Option<(usize, Vec<Piece>, Option<&'static str>)> = None;
        for i in 0..k {
          let mut s = format!("T{}-begin\n", i);
          let mut first = true;
          let mut ended = false;
          for j in 0..k {
            if edges >> (i * k + j) & 1 == 0 { continue; }
            let p = rel(DIRS[layout[i]], DIRS[layout[j]], &fname(j));
            if i == 0 && first && d != Deco::None {
              let (t, pieces, flag) = decorate(d, &p);
              s.push_str(&t);
              if flag == Some("last-line") { ended = true; }
              deco_ref = Some((j, pieces, flag));
              first = false;
              if ended { break; }
              continue;
            }
            first = false;
            s.push_str(&format!("{{{}}}\n", p));
          }
          if !ended { s.push_str(&format!("T{}-end\n", i)); }
          if style == 1 && i != 0 { s.push_str("```\nx\n```\n"); }
          if style == 2 && i != 0 && (0..k).all(|j| edges >> (i * k + j) & 1 == 0) { s = String::new(); }
          texts.push(s.clone());
          let fdir = dir.join(DIRS[layout[i]]);
          if std::fs::create_dir_all(&fdir).is_err() || std::fs::write(fdir.join(fname(i)), &s).is_err() { ok = false; }
        }
        if !ok { out.fail("C20|scratch-io|setup".into(), format!("{}", dir.display()), "cannot write scratch files".into()); continue; }
        if d == Deco::NoFinalNewline && deco_ref.is_none() { let _ = std::fs::remove_dir_all(&dir); continue; }
        // ---- reference
        let mut stack = vec![]; let mut oc = (false, false);
        let mut want_text = expand(0, k, edges, &(if d == Deco::None { None } else { deco_ref.take() }), &mut stack, &mut oc, style);
        // the verbatim copies inside an unclosed fence were recorded as {@j}: put the real paths back
        for j in 0..k { want_text = want_text.replace(&format!("{{@{}}}", j), &format!("{{{}}}", rel(DIRS[layout[0]], DIRS[layout[j]], &fname(j)))); }
        let want = if d == Deco::TwiceSameLine { Want::Unjudged } else { match oc { (true, true) => Want::Either, (true, false) => Want::Cycle, (false, true) => Want::Missing, _ => Want::Text(want_text) } };
        // ---- subject
        let root = dir.join(DIRS[layout[0]]).join(fname(0));
        let r = catch_unwind(AssertUnwindSafe(|| mech::read_mech_source_file(&root)));
        let shape = graph_shape(k, edges);
        let locus = format!("{}:{:?}{}", shape, d, ["", ":files-end-with-fence", ":empty-leaf-files", ":same-names-in-different-directories"][style]);
        let case = format!("files {:?} (f0 in ./, layout {:?})", texts, layout.iter().map(|l| DIRS[*l]).collect::<Vec<_>>());
        match r {
          Err(p) => out.fail(format!("C20|panic|{}", locus), case, panic_msg(p)),
          Ok(res) => {
            let got: Result<String, String> = match res { Ok(MechSourceCode::String(s)) => Ok(s), Ok(_) => Err("not a string source".into()), Err(e) => Err(format!("{}", e.kind_message())) };
            match (&want, &got) {
              (Want::Unjudged, _) => {}
              (Want::Text(w), Ok(g)) => { out.nontrivial += 1; if w != g { let cls = if matches!(d, Deco::InBacktickFence | Deco::InTildeFence | Deco::Fence4ClosedBy3 | Deco::AfterUnclosedFence | Deco::FenceIndent3 | Deco::FenceWithInfo | Deco::TildeInsideBacktick) { "fence-line-expanded-or-altered" } else if g.len() < w.len() { "include-line-ignored-or-text-lost" } else { "wrong-text" }; out.fail(format!("C20|{}|{}", cls, locus), case, format!("expected {:?}, got {:?}", w, g)); } }
              (Want::Text(w), Err(e)) => { out.nontrivial += 1; let cls = if e.contains("Circular") { "false-cycle" } else { "valid-tree-rejected" }; out.fail(format!("C20|{}|{}", cls, locus), case, format!("acyclic, complete include tree (expected {:?}) failed with: {}", w, e)); }
              (Want::Cycle, Ok(g)) => { out.nontrivial += 1; out.fail(format!("C20|cycle-missed|{}", locus), case, format!("a cycle is reachable from f0, loading returned {:?}", g)); }
              (Want::Cycle, Err(e)) => { out.nontrivial += 1; if !e.contains("Circular include") { out.fail(format!("C20|cycle-missed|{}", locus), case, format!("a cycle is reachable, the error does not say so: {}", e)); } }
              (Want::Missing, Ok(g)) => { out.nontrivial += 1; out.fail(format!("C20|missing-not-reported|{}", locus), case, format!("nofile.mec does not exist, loading returned {:?}", g)); }
              (Want::Missing, Err(e)) => { out.nontrivial += 1; if !e.contains("nofile.mec") { out.fail(format!("C20|missing-not-reported|{}", locus), case, format!("the error does not name the missing file: {}", e)); } }
              (Want::Either, Ok(g)) => { out.nontrivial += 1; out.fail(format!("C20|cycle-missed|{}", locus), case, format!("cycle and missing file reachable, loading returned {:?}", g)); }
              (Want::Either, Err(_)) => { out.nontrivial += 1; }
            }
            if unit % 61 == 0 && li == 0 && d == Deco::None { out.sample(json!({"files": texts, "result": got.map_err(|e| e)})); }
          }
        }
        let _ = std::fs::remove_dir_all(&dir);
       }
      }
    }
  }
}

pub fn graph_shape(k: usize, edges: u32) -> String {
  let has = |i: usize, j: usize| edges >> (i * k + j) & 1 == 1;
  let n = (0..k * k).filter(|b| edges >> b & 1 == 1).count();
  let selfloop = (0..k).any(|i| has(i, i));
  // reachable set and cycle detection from f0
  let mut reach = BTreeSet::new(); let mut st = vec![0usize];
  while let Some(x) = st.pop() { if reach.insert(x) { for j in 0..k { if has(x, j) { st.push(j); } } } }
  fn cyc(k: usize, edges: u32, i: usize, stack: &mut Vec<usize>) -> bool { if stack.contains(&i) { return true; } stack.push(i); for j in 0..k { if edges >> (i * k + j) & 1 == 1 && cyc(k, edges, j, stack) { return true; } } stack.pop(); false }
  let c = cyc(k, edges, 0, &mut vec![]);
  let indeg: Vec<usize> = (0..k).map(|j| (0..k).filter(|i| reach.contains(i) && has(*i, j)).count()).collect();
  let diamond = !c && indeg.iter().any(|d| *d >= 2);
  format!("{}{}{}edges{}", if c { if selfloop { "self-or-cycle/" } else { "cycle/" } } else { "acyclic/" }, if diamond { "diamond/" } else { "" }, if reach.len() < k { "unreachable-files/" } else { "" }, n.min(9))
}

impl Check for C20 {
  fn id(&self) -> &'static str { "C20" }
  fn level(&self) -> &'static str { "exploration" }
  fn unit_budget(&self, _t: Tier) -> Duration { Duration::from_secs(60) }
  fn drive(&mut self, tier: Tier, cfg: &PoolCfg, rep: &mut Report) {
    let k = self.k();
    let n = 1u64 << (k * k);
    rep.rule = format!("every subset of the {}x{} possible include edges among {} files (self-loops, cycles, diamonds and repeated includes included) = {} graphs x directory layouts (files placed in ., d1, d1/d2 with relative paths incl. ../) x file-body styles (plain, every included file ending with a code fence, empty leaf files) x 22 decorations of the root's first include line (blanks, tab, inner blanks, no final newline, CRLF, inside backtick / tilde / 4-backtick fences closed by 3 or 5, after an unclosed fence, fences indented by 3 or 4, text before / after the braces, a non-.mec brace expression, a missing target, upper-case extension, fence with an info string, a tilde line inside a backtick fence); \
      the files are written to a scratch directory and loaded with mech::read_mech_source_file; the reference is a depth-first textual substitution with the stack of files being expanded and its own CommonMark fence tracker; evaluations = loads; non-trivial = loads with a fixed verdict", k, k, k, n);
    rep.assumptions = vec!["which of two reachable failures (cycle, missing file) is reported is not judged; two brace groups on one line are not judged; symlinks and non-UTF-8 files are out of scope".into(), "a fence is a CommonMark fenced code block: 3+ backticks or tildes indented at most 3 blanks, closed by at least as many of the same character".into()];
    rep.cov("bounds", json!({"files": k, "graphs": n, "decorations": DECOS.len()}));
    let mut jobs = range_jobs("", n, tier.pick(4, 64));
    if tier == Tier::Quick { jobs.extend(range_jobs("names4", 1u64 << 16, 256)); }
    drive_ranges(cfg, rep, jobs);
    let _ = std::fs::remove_dir_all(format!("{}/target/c20-scratch", crate::report::verif_dir()));
    let _ = std::fs::remove_dir_all("/dev/shm/mc-c20-scratch");
    if rep.out.nontrivial < 1000 { rep.vacuity.push("too few judged loads".into()); }
  }
}
