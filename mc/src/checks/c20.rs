//! C20 placeholder (replaced below)
