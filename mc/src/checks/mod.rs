use crate::pool::*;
use crate::report::Report;
use std::time::Duration;

pub mod c01;
pub mod c02;
pub mod c03;
pub mod c04;
pub mod c05;
pub mod c06;
pub mod c07;
pub mod c08;
pub mod c09;
pub mod c10;
pub mod c11;
pub mod c12;
pub mod c13;
pub mod c14;
pub mod c15;
pub mod c16;
pub mod c17;
pub mod c18;
pub mod c19;
#[cfg(feature = "fs")]
pub mod c20;

pub trait Check: UnitRunner {
  fn id(&self) -> &'static str;
  /// MANIFEST level category
  fn level(&self) -> &'static str;
  fn unit_budget(&self, _tier: Tier) -> Duration { Duration::from_secs(10) }
  /// driver side: enumerate the bounded space, hand it to the pool, fill the report
  fn drive(&mut self, tier: Tier, cfg: &PoolCfg, rep: &mut Report);
}

pub fn make(id: &str, tier: Tier) -> Option<Box<dyn Check>> {
  match id {
    "C01" => Some(Box::new(c01::C01::new(tier))),
    "C02" => Some(Box::new(c02::C02::new(tier))),
    "C03" => Some(Box::new(c03::C03::new(tier))),
    "C04" => Some(Box::new(c04::C04::new(tier))),
    "C05" => Some(Box::new(c05::C05::new(tier))),
    "C06" => Some(Box::new(c06::C06::new(tier))),
    "C07" => Some(Box::new(c07::C07::new(tier))),
    "C08" => Some(Box::new(c08::C08::new(tier))),
    "C09" => Some(Box::new(c09::C09::new(tier))),
    "C10" => Some(Box::new(c10::C10::new(tier))),
    "C11" => Some(Box::new(c11::C11::new(tier))),
    "C12" => Some(Box::new(c12::C12::new(tier))),
    "C13" => Some(Box::new(c13::C13::new(tier))),
    "C14" => Some(Box::new(c14::C14::new(tier))),
    "C15" => Some(Box::new(c15::C15::new(tier))),
    "C16" => Some(Box::new(c16::C16::new(tier))),
    "C17" => Some(Box::new(c17::C17::new(tier))),
    "C18" => Some(Box::new(c18::C18::new(tier))),
    "C19" => Some(Box::new(c19::C19::new(tier))),
    #[cfg(feature = "fs")]
    "C20" => Some(Box::new(c20::C20::new(tier))),
    _ => None,
  }
}

/// split [0,n) into chunked jobs with a constant payload
pub fn range_jobs(payload: &str, n: u64, chunk: u64) -> Vec<Job> {
  let mut v = vec![];
  let mut lo = 0;
  while lo < n { let hi = (lo + chunk).min(n); v.push(Job { payload: payload.to_string(), lo, hi }); lo = hi; }
  v
}

/// standard driver for product enumerations
pub fn drive_ranges(cfg: &PoolCfg, rep: &mut Report, jobs: Vec<Job>) {
  run_jobs(cfg, jobs, &mut |ev| rep.absorb(ev));
}
