//! C10 — literate documents: prose is inert, named code fences are isolated.
//! unit = a chunk of generated documents; each is interpreted whole and compared with its code-only rendering
//! (prose placements) or with independent interpreters per namespace (fence layouts).
use super::*;
use crate::canon::{canon, Canon};
use crate::pool::*;
use crate::report::Report;
use crate::subject::*;
use mech_core::*;
use mech_interpreter::Interpreter;
use serde_json::json;
use std::panic::{catch_unwind, AssertUnwindSafe};

pub const PROGRAMS: [&[&str]; 4] = [
  &["a := 1", "b := a + 2", "c := [a b]"],
  &["~x := 5", "x = 7", "y := x * 2"],
  &["s := \"hi\"", "t := {1,2}", "u := 3 > 2", "v := [1 2; 3 4]"],
  &["a := 1", "b := 2", "c := 3", "d := 4"],
];

pub const PROSE: [(&str, &str); 60] = [
  ("title", "A Title\n==========="),
  ("section", "1. Section heading\n-------------------"),
  ("subsection", "(1.1) Sub section"),
  ("paragraph", "This is a paragraph of plain prose with words in it."),
  ("paragraph-two-lines", "This is a paragraph\nthat continues on a second line."),
  ("paragraph-inline-code", "A paragraph with `a := 999` as inline code."),
  ("paragraph-define-text", "The statement a := 999 appears in prose."),
  ("paragraph-emphasis", "Some *strong* and _emphasis_ and ~strike~ text."),
  ("bullet-list", "- first item\n- second item"),
  ("numbered-list", "1. first\n2. second"),
  ("check-list", "-[ ] todo item\n-[x] done item"),
  ("block-quote", "> a quoted line"),
  ("thematic-break", "***"),
  ("markdown-table", "| h1 | h2 |\n|----|----|\n| 1  | 2  |"),
  ("plain-fence", "```\na := 999\n```"),
  ("python-fence", "```python\na = 999\n```"),
  ("tilde-fence", "~~~\na := 999\n~~~"),
  ("disabled-fence", "```mech:disabled\na := 999\nx = 999\n```"),
  ("slash-comment", "// a := 999"),
  ("dash-comment", "-- a comment"),
  ("dash-comment-semicolon", "-- reset: x = 0; x = 9"),
  ("slash-comment-semicolon", "// note; a := 999; b := 998"),
  ("info-callout", "(i)> an informational callout"),
  ("warning-callout", "(!)> a warning callout"),
  ("idea-callout", "(*)> an idea callout"),
  ("question-callout", "(?)> a question callout"),
  ("equation", "$$ x = y + 1"),
  ("footnote", "[^1]: a footnote body"),
  ("abstract", "%% an abstract paragraph"),
  ("link", "See [the docs](https://mech-lang.org) for more."),
  // a fence shown verbatim inside a fence of the other sigil / of a longer run: the inner lines are text, not code
  ("tilde-fence-holding-grave-fence", "~~~markdown\n```\na := 999\n```\n~~~"),
  ("grave-fence-holding-tilde-fence", "```text\n~~~\na := 999\n~~~\n```"),
  ("long-grave-fence-holding-short", "````\n```\na := 999\n```\n````"),
  ("tilde-fence-holding-mech-fence", "~~~\n```mech\na := 999\nx = 999\n```\n~~~"),
  ("grave-fence-holding-tilde-line", "```\n~~~ not a closer\na := 999\n```"),
  ("python-fence-holding-tilde-fence", "```python\n~~~\na = 999\n~~~\n```"),
  // prose that holds inline evaluation of an *expression* (reads, never defines), in every element that evaluates its inline code
  ("paragraph-inline-eval", "The value is {{1 + 2}} here."),
  ("paragraph-inline-eval-two", "Two values {{3 * 3}} and {{[1 2 3]}} inline."),
  ("comment-inline-eval", "// a comment with {{1 + 2}} inside"),
  ("table-inline-eval", "| h1 | h2 |\n|----|----|\n| {{1 + 2}} | `a := 999` |"),
  ("table-define-text", "| name | text |\n|------|------|\n| a := 999 | x = 999 |"),
  ("quote-two-lines", "> a quote\n> over two lines with a := 999"),
  ("nested-list", "- item\n  - nested a := 999\n  - nested two"),
  ("list-define-text", "- a := 999\n- x = 999"),
  ("numbered-list-define-text", "1. a := 999\n2. x = 999"),
  ("error-callout", "(x)> an error callout with a := 999"),
  ("success-callout", "(+)> a success callout"),
  ("prompt", ">: a prompt with a := 999"),
  ("float-right", ">> a floated paragraph"),
  ("float-left", "<< a left float"),
  ("image", "![alt text](image.png)"),
  ("figure-table", "| ![a](a.png) | ![b](b.png) |"),
  ("citation", "[smith2020]: Smith, A Book (2020)"),
  ("diagram-fence", "```diagram\ngraph TD; A-->B;\n```"),
  ("ebnf-fence", "```ebnf\na := b, c ;\n```"),
  ("equation-fence", "```equation\na := 999\n```"),
  ("highlight-math", "A paragraph with !!highlight!! and $$x^2$$ inline math and a := 999."),
  ("hidden-comment-block", "// line one a := 999\n// line two x = 999"),
  ("heading-define-text", "2. a := 999\n-----------"),
  ("subtitle-define-text", "(2.1) x = 999"),
];

#[derive(Clone)]
pub enum Doc {
  /// program index, insertions (gap, prose index) in order
  Prose(usize, Vec<(usize, usize)>),
  /// namespace of each statement of PROGRAMS[3] (0 = unnamed, 1 = alpha, 2 = beta, ...), index of a statement replaced by a failing one
  Fences(Vec<usize>, Option<(usize, usize)>, &'static [&'static str]),
}

/// statements that fail in different places: name lookup, a kernel, an index, inside the body of a user function defined in the same fence
/// (plain body and match-arm form), a match without a matching arm
pub const FAILING: [(&str, &str); 8] = [
  ("undefined-name", "q := undefinedname"),
  ("kernel-shape", "q := [1 2] + [1 2 3]"),
  ("index-out-of-range", "w := [1 2 3]\nq := w[7]"),
  ("user-function-body", "bad(i<f64>) = z<f64> := m := [10 20 30]; z := m[i].\nq := bad(7)"),
  ("user-function-arm-body", "pk(n<u8>) => <u8>\n  | 0u8 => 1u8\n  | n => n + 200u8.\nq := pk(100u8)"),
  ("u8-overflow", "o<u8> := 200\nq := o + o"),
  // the body fails with an ordinary error (no panic): an undefined variable inside the function
  ("user-function-body-error", "broken(n<f64>) = r<f64> :=\n  r := n + qq.\nq := broken(1)"),
  ("user-function-arm-body-error", "brk(n<f64>) => <f64>\n  | 0 => 1\n  | n => n + qq.\nq := brk(1)"),
];
pub const NAMESPACES: [&str; 6] = ["", "alpha", "beta", "hidden_layer", "disabled_units", "hidden2"];

pub fn docs(tier: Tier) -> Vec<Doc> {
  let mut v = vec![];
  for pi in 0..3 {
    let gaps = PROGRAMS[pi].len() + 1;
    for g in 0..gaps { for e in 0..PROSE.len() { v.push(Doc::Prose(pi, vec![(g, e)])); } }
    // tight placements (prose index + 1000): the prose element on the line directly under a statement, no blank line in between
    for g in 1..gaps { for e in 0..PROSE.len() { v.push(Doc::Prose(pi, vec![(g, e + 1000)])); } }
    // every placement of two prose elements (ordered within a gap)
    if pi == 0 || tier == Tier::Thorough {
      for g1 in 0..gaps { for e1 in 0..PROSE.len() { for g2 in g1..gaps { for e2 in 0..PROSE.len() {
        if tier == Tier::Quick && (e1 + e2 * 7 + g1 + g2) % 4 != 0 { continue; }   // quick: a fixed quarter of the pairs
        v.push(Doc::Prose(pi, vec![(g1, e1), (g2, e2)]));
      } } } }
    }
  }
  // fence layouts over the independent program: every assignment of 4 statements to {unnamed, alpha, beta}
  for m in 0..81usize { let l: Vec<usize> = (0..4).map(|i| m / 3usize.pow(i as u32) % 3).collect(); v.push(Doc::Fences(l.clone(), None, PROGRAMS[3])); for f in 0..4 { if l[f] != 0 { for k in 0..FAILING.len() { if k == 0 || k == 3 || k == 6 || k == 7 || tier == Tier::Thorough || (m + 2 * f + k) % 3 == 0 { v.push(Doc::Fences(l.clone(), Some((f, k)), PROGRAMS[3])); } } } } }
  // namespaces whose names begin with a fence keyword are ordinary names
  for m in 0..81usize { let l: Vec<usize> = (0..4).map(|i| [0usize, 3, 4][m / 3usize.pow(i as u32) % 3]).collect(); v.push(Doc::Fences(l, None, PROGRAMS[3])); }
  for m in 0..27usize { let l: Vec<usize> = (0..3).map(|i| [0usize, 3, 5][m / 3usize.pow(i as u32) % 3]).collect(); v.push(Doc::Fences(l, None, PROGRAMS[0])); }
  // chained statements across namespaces (a name defined in one namespace is undefined in the others)
  for m in 0..27usize { let l: Vec<usize> = (0..3).map(|i| m / 3usize.pow(i as u32) % 3).collect(); v.push(Doc::Fences(l, None, PROGRAMS[0])); }
  v
}

pub fn render(d: &Doc) -> (String, String) {
  match d {
    Doc::Prose(pi, ins) => {
      let stmts = PROGRAMS[*pi];
      let mut blocks: Vec<String> = vec![];
      for g in 0..=stmts.len() {
        for (gg, e) in ins { if *gg == g { if *e >= 1000 { if let Some(last) = blocks.last_mut() { last.push('\n'); last.push_str(PROSE[*e - 1000].1); } } else { blocks.push(PROSE[*e].1.to_string()); } } }
        if g < stmts.len() { blocks.push(stmts[g].to_string()); }
      }
      (blocks.join("\n\n"), stmts.join("\n\n"))
    }
    Doc::Fences(layout, fail, stmts) => {
      let mut blocks: Vec<String> = vec![];
      let mut i = 0;
      while i < layout.len() {
        let ns = layout[i];
        let mut group = vec![];
        while i < layout.len() && layout[i] == ns { group.push(match fail { Some((fi, k)) if *fi == i => FAILING[*k].1.to_string(), _ => stmts[i].to_string() }); i += 1; }
        if ns == 0 { blocks.push(group.join("\n\n")); } else { blocks.push(format!("```mech:{}\n{}\n```", NAMESPACES[ns], group.join("\n"))); }
      }
      (blocks.join("\n\n"), String::new())
    }
  }
}

pub fn snapshot_of(i: &Interpreter) -> Vec<(String, bool, Canon)> {
  let st = i.symbols();
  let st = st.borrow();
  let dict = st.dictionary.borrow();
  let mut out = vec![];
  for (id, cell) in st.symbols.iter() {
    let name = dict.get(id).cloned().unwrap_or_else(|| format!("#{}", id));
    if name == "ans" { continue; }
    out.push((name, st.mutable_variables.contains_key(id), canon(&cell.borrow())));
  }
  out.sort();
  out
}

/// the statements of a multi-line fence body (a definition that spans lines stays together: continuation lines are indented)
fn split_statements(t: &str) -> Vec<String> {
  let mut v: Vec<String> = vec![];
  for l in t.split('\n') { if l.starts_with(' ') && !v.is_empty() { let last = v.len() - 1; v[last].push('\n'); v[last].push_str(l); } else { v.push(l.to_string()); } }
  v
}

fn interpret_doc(src: &str) -> Result<(Interpreter, bool), String> {
  let tree = match parse_cached(src) { Some(t) => t, None => return Err("parse".into()) };
  let mut i = Interpreter::new(0);
  match catch_unwind(AssertUnwindSafe(|| i.interpret(&tree))) { Ok(r) => Ok((i, r.is_ok())), Err(p) => Err(format!("PANIC {}", panic_msg(p))) }
}

pub const CHUNK: u64 = 24;
pub struct C10 { tier: Tier, ds: Vec<Doc> }
impl C10 { pub fn new(tier: Tier) -> C10 { C10 { tier, ds: docs(tier) } } }

fn short(s: &[(String, bool, Canon)]) -> Vec<String> { s.iter().map(|(n, m, c)| format!("{}{}={}", if *m { "~" } else { "" }, n, c.short())).collect() }

impl UnitRunner for C10 {
  fn unit(&mut self, _payload: &str, unit: u64, out: &mut WorkerOut) {
    let lo = (unit * CHUNK) as usize;
    let hi = (lo + CHUNK as usize).min(self.ds.len());
    for d in &self.ds[lo..hi] {
      out.evaluations += 1;
      let (doc, code_only) = render(d);
      let case = doc.replace('\n', " ⏎ ");
      match d {
        Doc::Prose(_pi, ins) => {
          let locus = ins.iter().map(|(_, e)| if *e >= 1000 { format!("{}:directly-under-code", PROSE[*e - 1000].0) } else { PROSE[*e].0.to_string() }).collect::<Vec<_>>().join("+");
          let (di, dok) = match interpret_doc(&doc) { Ok(x) => x, Err(e) if e == "parse" => { out.count("document_unparsable"); out.set("unparsable_prose", &locus); continue; } Err(e) => { out.fail(format!("C10|panic|{}", locus), case, e); continue; } };
          let (ci, _) = match interpret_doc(&code_only) { Ok(x) => x, Err(_) => continue };
          out.nontrivial += 1;
          let (sd, sc) = (snapshot_of(&di), snapshot_of(&ci));
          if sd != sc {
            let cls = if sd.len() < sc.len() || !dok { "code-not-executed" } else { "prose-changed-binding" };
            out.fail(format!("C10|{}|{}", cls, locus), case, format!("code only: {:?} ; document: {:?}{}", short(&sc), short(&sd), if dok { "" } else { " (the document stopped with an error)" }));
          }
          if lo % 480 == 0 && out.samples.is_empty() { out.sample(json!({"document": doc, "bindings": short(&sd)})); }
        }
        Doc::Fences(layout, fail, stmts) => {
          let locus = format!("fences:{}{}", layout.iter().map(|n| match *n { 0 => "u", 1 => "a", 2 => "b", 3 => "h", 4 => "d", _ => "k" }).collect::<String>(), match fail { Some((_, k)) => format!("+failing:{}", FAILING[*k].0), None => String::new() });
          let (di, _dok) = match interpret_doc(&doc) { Ok(x) => x, Err(e) if e == "parse" => { out.count("document_unparsable"); out.set("unparsable_fence_layouts", &locus); continue; } Err(e) => { out.fail(format!("C10|panic|{}", locus), case, e); continue; } };
          out.nontrivial += 1;
          // reference: one independent interpreter per namespace, fed that namespace's statements in document order
          let mut used: Vec<usize> = layout.clone(); used.sort(); used.dedup();
          for ns in used {
            // the reference never continues a session in which a statement failed (a failed statement changes nothing: C05): the statements
            // that succeeded are replayed in a fresh interpreter, so that the reference does not inherit what a failure left behind
            let mut r = Session::new();
            let mut done: Vec<String> = vec![];
            // an error ends the fence block it occurs in (block-level isolation); later blocks, of any namespace, still run
            let mut skip_block = false;
            for (i, st) in stmts.iter().enumerate() {
              if i > 0 && layout[i] != layout[i - 1] { skip_block = false; }
              if layout[i] == ns && !skip_block {
                let t: &str = match fail { Some((fi, k)) if *fi == i => FAILING[*k].1, _ => st };
                // a fenced block is interpreted statement by statement; the failing "statement" may be several lines (a definition, then the call)
                for line in split_statements(t) {
                  if skip_block { break; }
                  if r.run(&line).is_value() { done.push(line); }
                  else { if ns != 0 { skip_block = true; } r = Session::new(); for d in &done { r.run(d); } }
                }
              }
            }
            let want = r.snapshot();
            let got: Option<Vec<(String, bool, Canon)>> = if ns == 0 { Some(snapshot_of(&di)) } else { let subs = di.sub_interpreters.borrow(); subs.get(&hash_str(NAMESPACES[ns])).map(|b| snapshot_of(b)) };
            match got {
              Some(g) => if g != want {
                let extra: Vec<&String> = g.iter().map(|x| &x.0).filter(|n| !want.iter().any(|w| &w.0 == *n)).collect();
                let cls = if !extra.is_empty() { "fence-leak" } else if fail.is_some() { "fence-error-not-isolated" } else { "code-not-executed" };
                out.fail(format!("C10|{}|{}", cls, locus), case.clone(), format!("namespace '{}': independent interpreter has {:?}, document has {:?}", NAMESPACES[ns], short(&want), short(&g)));
              },
              None => { if !want.is_empty() { out.fail(format!("C10|code-not-executed|{}", locus), case.clone(), format!("namespace '{}' was never created; expected {:?}", NAMESPACES[ns], short(&want))); } }
            }
          }
        }
      }
    }
  }
}

impl Check for C10 {
  fn id(&self) -> &'static str { "C10" }
  fn level(&self) -> &'static str { "exploration" }
  fn unit_budget(&self, _t: Tier) -> Duration { Duration::from_secs(120) }
  fn drive(&mut self, tier: Tier, cfg: &PoolCfg, rep: &mut Report) {
    let n = self.ds.len() as u64;
    rep.rule = format!("{} documents: 3 base programs x every placement of one prose element (36 kinds: fences showing a fence of the other sigil or of a shorter run verbatim, titles, sections, paragraphs incl. ones that quote a define, lists, quotes, breaks, tables, plain / python / tilde / disabled fences containing a conflicting define, // and -- comments incl. ones with semicolons, callouts, equation, footnote, abstract, link) in every gap, {} placements of two; \
      every assignment of 4 independent statements to {{unnamed, fence alpha, fence beta}} (81 layouts) with each fenced statement in turn replaced by a failing one (8 kinds: undefined name, kernel shape error, index out of range, the body of a user function defined in the fence in plain and match-arm form, integer overflow), the same with namespaces named hidden_layer / disabled_units / hidden2, and chained statements across namespaces; oracle: bindings of the document = bindings of its code-only rendering; per namespace = an independent interpreter fed that namespace's statements; evaluations = documents; non-trivial = documents that parse", n, if tier == Tier::Quick { "a fixed quarter of all" } else { "all" });
    rep.assumptions = vec!["documents that do not parse are owned by C09 (counted, listed)".into(), "`ans`, out_values, returned ids of prose and HTML are not judged".into()];
    rep.cov("bounds", json!({"documents": n, "prose_elements": PROSE.len()}));
    let ds = self.ds.clone();
    rep.describe = Some(Box::new(move |_p, u| ("document".to_string(), render(&ds[(u * CHUNK) as usize]).0.replace('\n', " ⏎ "))));
    drive_ranges(cfg, rep, range_jobs("", (n + CHUNK - 1) / CHUNK, 1));
    if rep.out.nontrivial * 2 < rep.out.evaluations { rep.vacuity.push("more than half of the documents do not parse".into()); }
  }
}
