//! C04 — indexed assignment changes exactly the addressed elements.
//! Explicit-state BFS: a state is the full contents of one mutable matrix x; every transition executes one
//! assignment statement of the alphabet on the real interpreter and compares the whole of x with a reference store.
use super::c01::define_matrix;
use super::c03::{Ix, Sel};
use super::*;
use crate::canon::Canon;
use crate::pool::*;
use crate::refnum::*;
use crate::report::Report;
use crate::subject::*;
use serde::{Deserialize, Serialize};
use serde_json::json;
use std::collections::{BTreeMap, BTreeSet};

#[derive(Clone, Debug, PartialEq, Eq, Hash, PartialOrd, Ord, Serialize, Deserialize)]
pub struct Mat { pub kind: String, pub r: usize, pub c: usize, pub e: Vec<String> }

impl Mat {
  pub fn from_canon(c: &Canon) -> Option<Mat> {
    match c {
      Canon::Matrix(k, r, cc, e, _) => Some(Mat { kind: k.clone(), r: *r, c: *cc, e: e.iter().map(|x| x.bare()).collect() }),
      _ => None,
    }
  }
  pub fn literal(&self) -> String {
    let mut s = String::from("[");
    for i in 0..self.r { if i > 0 { s.push_str("; "); } for j in 0..self.c { if j > 0 { s.push(' '); } s.push_str(&spell(&self.kind, &self.e[i * self.c + j])); } }
    s.push(']');
    s
  }
  pub fn short(&self) -> String { format!("[{}]:{}x{}{}", self.kind, self.r, self.c, self.literal()) }
}

/// source spelling of a canonical element text
fn spell(kind: &str, t: &str) -> String {
  match kind {
    // canonical complex text is "re,im"
    "c64" => match t.split_once(',') { Some((re, im)) => if let Some(m) = im.strip_prefix('-') { format!("{}-{}i", re, m) } else { format!("{}+{}i", re, im) }, None => t.to_string() },
    _ => t.to_string(),
  }
}

#[derive(Clone, Debug, PartialEq)]
pub enum Src { Scalar, WrongKind, VecExact, VecShort, VecLong, ScalarLit, VecLit }

#[derive(Clone, Debug)]
pub struct Stmt { pub a: Ix, pub b: Option<Ix>, pub src: Src, pub op: &'static str, pub text: String, pub n_addr: usize, /// kind of the index values when the target is given through typed index variables
  pub ik: Option<&'static str> }

pub const OPS: [&str; 5] = ["=", "+=", "-=", "*=", "/="];

fn dim_forms(d: usize, tier: Tier) -> Vec<Ix> {
  let d = d as i64;
  let mut v = vec![Ix::S(1), Ix::S(d), Ix::S(d + 1), Ix::S(0), Ix::All, Ix::R(1, d, true), Ix::R(1, d + 1, true)];
  if d >= 2 { v.push(Ix::V(vec![1, d])); v.push(Ix::V(vec![d, 1])); v.push(Ix::R(2, d, true)); }
  v.push(Ix::V(vec![1, d + 1]));
  if d >= 2 { let mut w: Vec<i64> = vec![1]; w.extend(1..d); v.push(Ix::V(w)); }
  // an invalid position after, and between, valid ones (the statement must fail before anything is written)
  v.push(Ix::V(vec![1, 0]));
  if d >= 2 { v.push(Ix::V(vec![1, d + 1, 2])); }
  v.push(Ix::M((0..d as usize).map(|i| i % 2 == 0).collect()));
  v.push(Ix::M((0..d as usize + 1).map(|i| i % 2 == 0).collect()));
  if tier == Tier::Thorough {
    v.push(Ix::M((0..d as usize).map(|i| i % 2 == 1).collect()));
    if d >= 2 { v.push(Ix::M((0..d as usize - 1).map(|_| true).collect())); v.push(Ix::R(1, 2, false)); }
    if d >= 3 { v.push(Ix::V(vec![d, 2])); v.push(Ix::R(2, 3, true)); }
  }
  v
}

fn lin_forms(n: usize, tier: Tier) -> Vec<Ix> {
  let n = n as i64;
  let mut v = vec![Ix::S(0), Ix::S(1), Ix::S(2), Ix::S(n), Ix::S(n + 1), Ix::All,
    Ix::V(vec![1, 2]), Ix::V(vec![2, 1]), Ix::V(vec![n, 1]), Ix::V(vec![1, n + 1]), Ix::V(vec![0, 1]), Ix::V(vec![2, 2]),
    Ix::R(1, 2, true), Ix::R(2, n, true), Ix::R(1, n + 1, true), Ix::R(1, 3, false), Ix::R(1, n, true),
    Ix::M((0..n as usize).map(|i| i % 2 == 0).collect()), Ix::M((0..n as usize).map(|i| i == 0).collect()), Ix::M(vec![true; n as usize]),
    Ix::M((0..n as usize + 1).map(|i| i % 2 == 0).collect())];
  if n >= 2 { v.push(Ix::M((0..n as usize - 1).map(|i| i % 2 == 0).collect())); }
  v.push(Ix::V(vec![1, 0])); v.push(Ix::V(vec![1, n + 1, 2])); v.push(Ix::V(vec![2, 0, 1]));
  // as many index values as x has elements, one of them repeated (not every element is addressed), and the full reversed permutation
  if n >= 2 { let mut w: Vec<i64> = vec![1]; w.extend(1..n); v.push(Ix::V(w)); v.push(Ix::V((1..=n).rev().collect())); }
  if tier == Tier::Thorough { v.push(Ix::V(vec![1, 2, n])); v.push(Ix::V(vec![n, 2, 1])); v.push(Ix::M((0..n as usize).map(|i| i % 2 == 1).collect())); v.push(Ix::M(vec![false; n as usize])); }
  v
}

pub fn ops_for(kind: &str) -> Vec<&'static str> { if kind == "string" || kind == "bool" { vec!["="] } else { OPS.to_vec() } }

/// the reduced target set used for the kinds that are not searched in depth (one level from the initial state)
pub fn is_core_target(a: &Ix, b: &Option<Ix>, r: usize, c: usize) -> bool {
  let n = (r * c) as i64;
  let core = |ix: &Ix, d: i64| match ix {
    Ix::S(k) => *k == 1 || *k == d || *k == d + 1,
    Ix::V(v) => v == &vec![1, d] || v == &vec![1, d + 1] || v == &vec![d, 1],
    Ix::R(a, b, true) => (*a, *b) == (1, d),
    Ix::All => true,
    Ix::M(m) => m.len() as i64 == d && m.iter().enumerate().all(|(i, x)| *x == (i % 2 == 0)),
    _ => false,
  };
  match b {
    None => core(a, n) || matches!(a, Ix::V(v) if v == &vec![1, 2] || v == &vec![2, 2] || v == &vec![2, 1]) || matches!(a, Ix::R(1, 2, true)),
    Some(b) => core(a, r as i64) && core(b, c as i64),
  }
}

fn count_sel(a: &Ix, d: usize) -> Option<usize> { match a.select(d) { Sel::Ok(v) => Some(v.len()), _ => None } }

/// the statement alphabet for one shape and kind (shape is invariant under assignment)
pub fn alphabet(r: usize, c: usize, kind: &str, tier: Tier) -> Vec<Stmt> {
  let mut out = vec![];
  let mut targets: Vec<(Ix, Option<Ix>)> = lin_forms(r * c, tier).into_iter().map(|a| (a, None)).collect();
  for a in dim_forms(r, tier) { for b in dim_forms(c, tier) { targets.push((a.clone(), Some(b.clone()))); } }
  for (a, b) in targets {
    let idx = match &b { None => a.text(), Some(b) => format!("{},{}", a.text(), b.text()) };
    let n_addr = match &b { None => count_sel(&a, r * c).unwrap_or(0), Some(bb) => count_sel(&a, r).unwrap_or(0) * count_sel(bb, c).unwrap_or(0) };
    for op in ops_for(kind) {
      let sname = if op == "=" { "s77" } else { "s2" };
      out.push(Stmt { a: a.clone(), b: b.clone(), src: Src::Scalar, op, text: format!("x[{}] {} {}", idx, op, sname), n_addr, ik: None });
      if let Some(lit) = scalar_literal(kind, op) { out.push(Stmt { a: a.clone(), b: b.clone(), src: Src::ScalarLit, op, text: format!("x[{}] {} {}", idx, op, lit), n_addr, ik: None }); }
      if op == "=" || op == "+=" { out.push(Stmt { a: a.clone(), b: b.clone(), src: Src::WrongKind, op, text: format!("x[{}] {} wk", idx, op), n_addr, ik: None }); }
      // vector sources: only through a vector of linear indices, a range or a mask (one-dimensional)
      if b.is_none() && matches!(a, Ix::V(_) | Ix::R(..) | Ix::M(_)) && n_addr >= 1 && n_addr <= 6 {
        out.push(Stmt { a: a.clone(), b: None, src: Src::VecExact, op, text: format!("x[{}] {} v{}", idx, op, n_addr), n_addr, ik: None });
        if let Some(lit) = vector_literal(kind, n_addr) { out.push(Stmt { a: a.clone(), b: None, src: Src::VecLit, op, text: format!("x[{}] {} {}", idx, op, lit), n_addr, ik: None }); }
        if op == "=" || op == "+=" {
          if n_addr >= 2 { out.push(Stmt { a: a.clone(), b: None, src: Src::VecShort, op, text: format!("x[{}] {} v{}", idx, op, n_addr - 1), n_addr, ik: None }); }
          out.push(Stmt { a: a.clone(), b: None, src: Src::VecLong, op, text: format!("x[{}] {} v{}", idx, op, n_addr + 1), n_addr, ik: None });
        }
      }
    }
  }
  // the same target given through index variables of every numeric kind (scalar and vector index values)
  for ik in super::c03::INDEX_KINDS {
    let n = (r * c) as i64; let (rr, cc) = (r as i64, c as i64);
    let mut tg: Vec<(Ix, Option<Ix>)> = vec![(Ix::S(1), None), (Ix::S(n), None), (Ix::S(n + 1), None), (Ix::S(0), None), (Ix::V(vec![1, 2]), None), (Ix::V(vec![n, 1]), None), (Ix::V(vec![1, n + 1]), None),
      (Ix::S(1), Some(Ix::S(cc))), (Ix::S(rr), Some(Ix::S(1))), (Ix::S(rr + 1), Some(Ix::S(1))), (Ix::S(1), Some(Ix::S(cc + 1))), (Ix::S(0), Some(Ix::S(1))),
      (Ix::V(vec![1, rr]), Some(Ix::S(1))), (Ix::S(1), Some(Ix::V(vec![1, cc]))), (Ix::V(vec![rr, 1]), Some(Ix::All)), (Ix::All, Some(Ix::V(vec![cc, 1]))), (Ix::V(vec![1, rr + 1]), Some(Ix::All))];
    tg.dedup();
    for (a, b) in tg {
      let name = |ix: &Ix| match ix { Ix::S(k) => typed_index_name(ik, &[*k]), Ix::V(v) => typed_index_name(ik, v), other => other.text() };
      let idx = match &b { None => name(&a), Some(b) => format!("{},{}", name(&a), name(b)) };
      let n_addr = match &b { None => count_sel(&a, r * c).unwrap_or(0), Some(bb) => count_sel(&a, r).unwrap_or(0) * count_sel(bb, c).unwrap_or(0) };
      for op in ops_for(kind).into_iter().filter(|o| *o == "=" || *o == "+=") {
        let sname = if op == "=" { "s77" } else { "s2" };
        out.push(Stmt { a: a.clone(), b: b.clone(), src: Src::Scalar, op, text: format!("x[{}] {} {}", idx, op, sname), n_addr, ik: Some(ik) });
      }
    }
  }
  out
}

/// name of the helper variable that holds the index value(s) `v` with kind `ik` (letters only: digits and underscores do not mix in identifiers)
pub fn typed_index_name(ik: &str, v: &[i64]) -> String {
  format!("k{}{}", ik.replace("128", "x").replace("16", "s").replace("32", "t").replace("64", "l").replace('8', "b"), v.iter().map(|x| ((b'a' + *x as u8) as char).to_string()).collect::<String>())
}

/// source element values of the helper vectors v1..v7: 91, 92, ...
fn vec_elem(i: usize) -> String { format!("{}", 91 + i) }

pub fn scalar_val(kind: &str, op: &str) -> String {
  let n = if op == "=" { 77 } else { 2 };
  match kind { "string" => format!("\"z{}\"", n), "bool" => "true".into(), "f64" | "f32" => format!("{}.0", n), "r64" => format!("{}/1", n), "c64" => format!("{}.0,0.0", n), _ => format!("{}", n) }
}

/// literal spelling of the scalar source (None where the kind has no unambiguous literal suffix)
pub fn scalar_literal(kind: &str, op: &str) -> Option<String> {
  let n = if op == "=" { 77 } else { 2 };
  match kind {
    "f64" => Some(format!("{}", n)),
    "string" => Some(format!("\"z{}\"", n)),
    "bool" => Some("true".into()),
    k if k.starts_with('u') => Some(format!("{}{}", n, k)),
    _ => None,
  }
}
pub fn vector_literal(kind: &str, n: usize) -> Option<String> {
  let vals: Vec<String> = (0..n).map(|i| match kind { "string" => format!("\"w{}\"", 91 + i), "bool" => format!("{}", i % 2 == 0), k if k.starts_with('u') => format!("{}{}", 91 + i, k), _ => vec_elem(i) }).collect();
  match kind { "f64" | "string" | "bool" => Some(format!("[{}]", vals.join(" "))), k if k.starts_with('u') => Some(format!("[{}]", vals.join(" "))), _ => None }
}

pub fn helper_defs(kind: &str) -> Vec<String> { helper_defs_for(kind, 0, 0) }

pub fn helper_defs_for(kind: &str, r: usize, c: usize) -> Vec<String> {
  let mut v = vec![];
  if r > 0 {
    let n = (r * c) as i64; let (rr, cc) = (r as i64, c as i64);
    for ik in super::c03::INDEX_KINDS {
      let mut sc: Vec<i64> = vec![0, 1, n, n + 1, rr, rr + 1, cc, cc + 1]; sc.sort(); sc.dedup();
      for k in sc { v.push(format!("{}<{}> := {}", typed_index_name(ik, &[k]), ik, k)); }
      let mut vs: Vec<Vec<i64>> = vec![vec![1, 2], vec![n, 1], vec![1, n + 1], vec![1, rr], vec![1, cc], vec![rr, 1], vec![cc, 1], vec![1, rr + 1]]; vs.sort(); vs.dedup();
      for w in vs { v.push(format!("{}<[{}]> := [{}]", typed_index_name(ik, &w), ik, w.iter().map(|x| x.to_string()).collect::<Vec<_>>().join(" "))); }
    }
  }
  match kind {
    "f64" => { v.push("s77 := 77".to_string()); v.push("s2 := 2".to_string()); v.push("wk := \"s\"".to_string()); }
    "string" => { v.push("s77 := \"z77\"".to_string()); v.push("s2 := \"z2\"".to_string()); v.push("wk := 5".to_string()); }
    "bool" => { v.push("s77 := true".to_string()); v.push("s2 := true".to_string()); v.push("wk := 5".to_string()); }
    "r64" => { v.push("s77 := 77/1".to_string()); v.push("s2 := 2/1".to_string()); v.push("wk := \"s\"".to_string()); }
    "c64" => { v.push("s77 := 77+0i".to_string()); v.push("s2 := 2+0i".to_string()); v.push("wk := \"s\"".to_string()); }
    k => { v.push(format!("s77<{}> := 77", k)); v.push(format!("s2<{}> := 2", k)); v.push("wk := \"s\"".to_string()); }
  }
  for n in 1..=7usize {
    let vals: Vec<String> = (0..n).map(|i| match kind { "string" => format!("\"w{}\"", 91 + i), "bool" => format!("{}", i % 2 == 0), "r64" => format!("{}/1", 91 + i), "c64" => format!("{}+0i", 91 + i), _ => vec_elem(i) }).collect();
    v.push(define_matrix(&format!("v{}", n), kind, &vals, 1, n));
  }
  v
}

pub fn helper_elem_text(kind: &str, i: usize) -> String {
  match kind { "string" => format!("\"w{}\"", 91 + i), "bool" => format!("{}", i % 2 == 0), "f64" | "f32" => format!("{}.0", 91 + i), "r64" => format!("{}/1", 91 + i), "c64" => format!("{}.0,0.0", 91 + i), _ => vec_elem(i) }
}

pub enum RefOut { MustError(&'static str), Unjudged(&'static str), Ok(Mat, Vec<usize>), /// only the elements that are not addressed are fixed (they stay)
  FrameOnly(Vec<usize>), /// a valid target that addresses nothing: accepted or rejected, x stays as it is
  Unchanged }

/// reference store: apply one statement to the matrix
pub fn reference(m: &Mat, st: &Stmt) -> RefOut {
  // addressed positions (row-major positions of x, in addressing order)
  let pos: Vec<usize> = match &st.b {
    None => match st.a.select(m.r * m.c) {
      Sel::Ok(lin) => lin.iter().map(|p| (p % m.r) * m.c + (p / m.r)).collect(),
      Sel::OutOfRange => return RefOut::MustError("out-of-range"),
      Sel::BadMask => return RefOut::MustError("mask-length"),
      Sel::Unjudged => return RefOut::Unjudged("degenerate-range"),
    },
    Some(b) => match (st.a.select(m.r), b.select(m.c)) {
      (Sel::Unjudged, _) | (_, Sel::Unjudged) => return RefOut::Unjudged("degenerate-range"),
      (Sel::OutOfRange, _) | (_, Sel::OutOfRange) => return RefOut::MustError("out-of-range"),
      (Sel::BadMask, _) | (_, Sel::BadMask) => return RefOut::MustError("mask-length"),
      (Sel::Ok(ri), Sel::Ok(ci)) => { let mut v = vec![]; for i in &ri { for j in &ci { v.push(i * m.c + j); } } v }
    },
  };
  if st.src == Src::WrongKind { return RefOut::MustError("wrong-kind-source"); }
  if pos.is_empty() { return RefOut::Unchanged; }
  let seen: BTreeSet<usize> = pos.iter().copied().collect();
  if seen.len() != pos.len() {
    // a repeated position: with a scalar source and plain assignment every addressed element gets the value; otherwise only the frame is fixed
    if st.op == "=" && matches!(st.src, Src::Scalar | Src::ScalarLit) {
      let mut out = m.clone();
      for p in &pos { out.e[*p] = scalar_val(&m.kind, st.op); }
      let mut upos: Vec<usize> = seen.into_iter().collect(); upos.sort();
      return RefOut::Ok(out, upos);
    }
    return RefOut::FrameOnly(seen.into_iter().collect());
  }
  let srcs: Vec<String> = match st.src {
    Src::Scalar | Src::ScalarLit => vec![scalar_val(&m.kind, st.op); pos.len()],
    Src::VecExact | Src::VecLit => (0..pos.len()).map(|i| helper_elem_text(&m.kind, i)).collect(),
    _ => return RefOut::Unjudged("source-length-differs"),
  };
  let mut out = m.clone();
  for (i, p) in pos.iter().enumerate() {
    let new = if st.op == "=" { srcs[i].clone() } else {
      let op = &st.op[..1];
      match ref_binop(op, &m.kind, &m.e[*p], &srcs[i]) {
        RefAns::Exact(Canon::Num(_, t)) => t,
        _ => return RefOut::Unjudged("unrepresentable-result"),
      }
    };
    out.e[*p] = new;
  }
  RefOut::Ok(out, pos)
}

#[derive(Serialize, Deserialize, Clone)]
pub struct Payload { pub kind: String, pub r: usize, pub c: usize, pub history: Vec<String>, pub state: Mat }

/// one job = one shape: every frontier state of every kind; a unit is a chunk of the statement alphabet,
/// so that each statement text is parsed by exactly one worker
#[derive(Serialize, Deserialize, Clone)]
pub struct Level { pub r: usize, pub c: usize, pub entries: Vec<Payload>, #[serde(default)] pub core_only: bool }

pub const STMT_CHUNK: usize = 24;

pub struct C04 { tier: Tier, level: Option<(String, Level)>, alphas: std::collections::HashMap<String, std::rc::Rc<Vec<Stmt>>> }

pub fn init_values(kind: &str, r: usize, c: usize) -> Vec<String> {
  let mut v = vec![];
  for i in 0..r { for j in 0..c { let n = 10 * (i + 1) + (j + 1); v.push(match kind { "string" => format!("\"s{}\"", n), "bool" => format!("{}", (i + j) % 2 == 0), "r64" => format!("{}/7", n), "c64" => format!("{}+1i", n), _ => format!("{}", n) }); } }
  v
}

fn helpers_snapshot(s: &Session) -> Vec<(String, bool, Canon)> { s.snapshot().into_iter().filter(|(n, _, _)| n != "x").collect() }

impl C04 {
  pub fn new(tier: Tier) -> C04 { C04 { tier, level: None, alphas: std::collections::HashMap::new() } }

  fn build(p: &Payload, typed: bool) -> Option<Session> {
    let mut s = Session::new();
    for d in (if typed { helper_defs_for(&p.kind, p.r, p.c) } else { helper_defs(&p.kind) }) { if !s.run(&d).is_value() { return None; } }
    let def = format!("~{}", define_matrix("x", &p.kind, &init_values(&p.kind, p.r, p.c), p.r, p.c));
    if !s.run(&def).is_value() { return None; }
    for h in &p.history { s.run(h); }
    // a private copy of the state, used to put x back between sibling transitions (whole-variable assignment copies)
    let vals: Vec<String> = p.state.e.clone();
    let keep = match p.kind.as_str() {
      "f64" | "string" | "bool" | "c64" => format!("keep := {}", p.state.literal()),
      k => format!("keep<[{}]> := {}", k, p.state.literal()),
    };
    let _ = vals;
    s.run(&keep);
    Some(s)
  }
}

fn support_key(r: usize, c: usize, st: &Stmt) -> String {
  let forms = match &st.b { None => st.a.form().to_string(), Some(b) => format!("{},{}", st.a.form(), b.form()) };
  let srcname = match st.src { Src::Scalar => "scalar", Src::ScalarLit => "scalar-literal", Src::WrongKind => "wrong-kind", Src::VecLit => "vector-literal", _ => "vector" };
  format!("{}|{}|{}|{}", super::c03::storage_class((r, c)), forms, st.op, srcname)
}

/// execute one statement in `s` (x must hold `pre`) and judge it; returns the successor state
fn transition(s: &mut Session, p: &Payload, st: &Stmt, pre: &Mat, out: &mut WorkerOut) -> Option<Mat> {
  let forms = match &st.b { None => st.a.form().to_string(), Some(b) => format!("{},{}", st.a.form(), b.form()) };
  let srcname = match st.src { Src::Scalar => "scalar", Src::ScalarLit => "scalar-literal", Src::WrongKind => "wrong-kind", Src::VecExact => "vector", Src::VecLit => "vector-literal", Src::VecShort => "vector-short", Src::VecLong => "vector-long" };
  let locus = match st.ik { None => format!("{}:{}:{}@{}", st.op, forms, srcname, super::c03::storage_class((p.r, p.c))), Some(ik) => format!("{}:{}:{}:index-kind-{}@{}", st.op, forms, srcname, ik, super::c03::storage_class((p.r, p.c))) };
  if let (Some(ik), true) = (st.ik, true) { out.set("typed_index_targets", &format!("{}|{}", ik, forms)); }
  let case = match st.ik { None => format!("x = {}; {}", pre.short(), st.text), Some(ik) => format!("x = {}; {} (index variables of kind {} holding {})", pre.short(), st.text, ik, match &st.b { None => st.a.text(), Some(b) => format!("{},{}", st.a.text(), b.text()) }) };
  let o = s.run(&st.text);
  let post = s.get("x").and_then(|c| Mat::from_canon(&c));
  let post = match post { Some(m) => m, None => { out.fail(format!("C04|frame-broken|{}", locus), case, format!("x is no longer a matrix: {:?}", s.get("x").map(|c| c.short()))); return None; } };
  if post.r != pre.r || post.c != pre.c || post.kind != pre.kind {
    out.fail(format!("C04|frame-broken|{}", locus), case.clone(), format!("shape/kind changed: {}", post.short()));
  }
  let rf = reference(pre, st);
  match (&rf, &o) {
    (_, Outcome::Panic(m)) => { out.fail(format!("C04|panic|{}", locus), case.clone(), m.clone()); }
    (RefOut::Unjudged(why), _) => { out.count(&format!("unjudged:{}", why)); }
    (RefOut::FrameOnly(pos), _) => {
      out.count("unjudged:repeated-index(frame only)");
      out.nontrivial += 1;
      if (0..pre.e.len()).any(|i| !pos.contains(&i) && post.e.get(i) != pre.e.get(i)) { out.fail(format!("C04|frame-broken|{}", locus), case.clone(), format!("an element that is not addressed changed: x is now {}", post.short())); }
    }
    (RefOut::Unchanged, _) => {
      out.nontrivial += 1;
      out.count("addresses_nothing");
      if &post != pre { out.fail(format!("C04|empty-target-modified|{}", locus), case.clone(), format!("the target addresses no element, x is now {}", post.short())); }
    }
    (RefOut::MustError(why), Outcome::Value(_)) => {
      out.nontrivial += 1;
      out.fail(format!("C04|bad-target-accepted|{}", locus), case.clone(), format!("{}: must be rejected, x is now {}", why, post.short()));
    }
    (RefOut::MustError(_), _) => {
      out.nontrivial += 1;
      if &post != pre { out.fail(format!("C04|failed-but-modified|{}", locus), case.clone(), format!("statement failed but x is now {}", post.short())); }
    }
    (RefOut::Ok(want, pos), Outcome::Value(_)) => {
      out.nontrivial += 1;
      out.set("supported", &support_key(p.r, p.c, st));
      if &post != want {
        let frame_broken = (0..pre.e.len()).any(|i| !pos.contains(&i) && post.e.get(i) != pre.e.get(i));
        let not_relative = st.op != "=" && pos.iter().enumerate().all(|(k, i)| {
          let src = match st.src { Src::Scalar | Src::ScalarLit => scalar_val(&pre.kind, st.op), _ => helper_elem_text(&pre.kind, k) };
          post.e.get(*i) == Some(&src)
        });
        let cls = if frame_broken { "frame-broken" } else if not_relative { "opassign-not-relative" } else { "wrong-write" };
        out.fail(format!("C04|{}|{}", cls, locus), case.clone(), format!("reference {}, observed {}", want.short(), post.short()));
      } else {
        // reading the same index afterwards returns what was written
        let idx = match &st.b { None => st.a.text(), Some(b) => format!("{},{}", st.a.text(), b.text()) };
        let rd = s.run(&format!("x[{}]", idx));
        let repeats = pos.len() != st.n_addr;
        if let (Outcome::Value(c), false) = (&rd, repeats) {
          let got: Vec<String> = match c.as_matrix() { Some((_, _, e)) => e.iter().map(|x| x.bare()).collect(), None => vec![c.bare()] };
          let wanted: Vec<String> = pos.iter().map(|i| want.e[*i].clone()).collect();
          if got != wanted { out.fail(format!("C04|readback-differs|{}", locus), case.clone(), format!("x[{}] reads {:?}, written {:?}", idx, got, wanted)); }
        }
      }
    }
    (RefOut::Ok(_want, _), Outcome::Error(e)) => {
      out.count("valid_rejected");
      let modified = &post != pre;
      // judged by the driver: a violation only where this (target form, operator, source class) is accepted somewhere on this storage class
      // the rejection is decided by dispatch on (kind, shape, statement), not by the element values: identify the case without the state
      out.fail(format!("C04|valid-rejected|{}", locus), format!("x is [{}]:{}x{}; {}", pre.kind, pre.r, pre.c, st.text), format!("Err({}){} (first seen with x = {})", e, if modified { " and x was modified" } else { "" }, pre.short()));
    }
    _ => {}
  }
  Some(post)
}

impl UnitRunner for C04 {
  fn unit(&mut self, payload: &str, unit: u64, out: &mut WorkerOut) {
    if payload == "machine-statement" { return machine_statement_unit(unit, out); }
    // payload = path of the level file written by the driver
    if !matches!(&self.level, Some((k, _)) if k == payload) {
      let txt = std::fs::read_to_string(payload).expect("level file");
      self.level = Some((payload.to_string(), serde_json::from_str::<Level>(&txt).unwrap()));
      self.alphas.clear();
    }
    let level = self.level.as_ref().unwrap().1.clone();
    for (ei, p) in level.entries.iter().enumerate() {
      if !self.alphas.contains_key(&p.kind) { self.alphas.insert(p.kind.clone(), std::rc::Rc::new(alphabet(p.r, p.c, &p.kind, self.tier))); }
      let alpha = self.alphas[&p.kind].clone();
      let lo = unit as usize * STMT_CHUNK;
      let hi = (lo + STMT_CHUNK).min(alpha.len());
      if lo >= hi { continue; }
      let mut sess: Option<(Session, bool, Vec<(String, bool, Canon)>)> = None;
      for si in lo..hi {
        let st = &alpha[si];
        if level.core_only && !(is_core_target(&st.a, &st.b, p.r, p.c) && (st.ik.is_none() || st.ik == Some("u8") || st.ik == Some("i64"))) { continue; }
        out.evaluations += 1;
        let mut attempt = 0;
        loop {
          attempt += 1;
          if sess.is_none() {
            match C04::build(p, alpha[lo..hi].iter().any(|st| st.ik.is_some()) || p.history.iter().any(|h| h.starts_with("x[k") || h.contains(",k"))) {
              Some(s) => { let h = helpers_snapshot(&s); sess = Some((s, true, h)); }
              None => { out.fail("C04|setup-failed|helpers".into(), format!("{:?}", p.history), "could not define helpers / x".into()); break; }
            }
          }
          let (s, fresh, helpers) = sess.as_mut().unwrap();
          let was_fresh = *fresh;
          *fresh = false;
          let pre = match s.get("x").and_then(|c| Mat::from_canon(&c)) { Some(m) => m, None => { sess = None; if attempt < 2 { continue; } break; } };
          if pre != p.state {
            if was_fresh {
              out.fail(format!("C04|nondeterministic-replay|{}", p.kind), format!("{} after {:?}", p.state.short(), p.history), format!("replay gives {}", pre.short()));
              sess = None;
              break;
            }
            sess = None;
            continue;
          }
          let mut local = WorkerOut::default();
          let post = transition(s, p, st, &pre, &mut local);
          // the source operands must never be modified by an assignment
          let hs = helpers_snapshot(s);
          let dirty = &hs != helpers;
          if dirty { local.fail(format!("C04|source-modified|{}", p.kind), format!("x = {}; {}", pre.short(), st.text), "a helper (source) variable changed".into()); }
          if !local.failures.is_empty() && !was_fresh && attempt < 2 {
            // re-confirm on a session rebuilt from the history alone before reporting anything
            sess = None;
            continue;
          }
          out.merge(local);
          if let Some(post) = &post {
            out.extra.push(json!({"from": ei, "stmt": st.text, "state": post}));
            if si % 101 == 0 && ei == 0 { out.sample(json!({"state": pre.short(), "statement": st.text, "x_after": post.short()})); }
          }
          // put x back for the next sibling transition
          match &post {
            Some(m) if m == &pre && !dirty => {}
            Some(_) if !dirty => {
              s.run("x = keep");
              let back = s.get("x").and_then(|c| Mat::from_canon(&c));
              if back.as_ref() != Some(&pre) || &helpers_snapshot(s) != helpers { sess = None; }
            }
            _ => { sess = None; }
          }
          break;
        }
      }
    }
  }
}

impl Check for C04 {
  fn id(&self) -> &'static str { "C04" }
  fn level(&self) -> &'static str { "model_checking" }
  fn unit_budget(&self, t: Tier) -> Duration { Duration::from_secs(t.pick(120, 600)) }
  fn drive(&mut self, tier: Tier, cfg: &PoolCfg, rep: &mut Report) {
    let shapes: Vec<(usize, usize)> = tier.pick(vec![(1, 3), (3, 1), (2, 2), (2, 3), (3, 2)], vec![(1, 1), (1, 3), (3, 1), (2, 2), (2, 3), (3, 2), (1, 4), (3, 3)]);
    let kinds: Vec<&str> = tier.pick(vec!["f64", "u8"], vec!["f64", "u8", "i64", "string", "bool"]);
    let depth = tier.pick(2, 3);
    let cap_per_level: usize = tier.pick(24, 150);
    let mut total_states = 0u64;
    let mut transitions = 0u64;
    let mut per_depth: BTreeMap<String, serde_json::Value> = BTreeMap::new();
    let mut capped = false;
    let mut kind_sweep_transitions = 0u64;
    let scratch = format!("{}/target/c04-levels", crate::report::verif_dir());
    let _ = std::fs::create_dir_all(&scratch);
    for (r, c) in &shapes {
      let mut seen: BTreeSet<Mat> = BTreeSet::new();
      let mut frontier: Vec<Payload> = vec![];
      for kind in &kinds {
        let init = Mat { kind: kind.to_string(), r: *r, c: *c, e: init_values(kind, *r, *c).iter().map(|v| if *kind == "string" { v.clone() } else { super::c01::canon_text(kind, v) }).collect() };
        seen.insert(init.clone());
        frontier.push(Payload { kind: kind.to_string(), r: *r, c: *c, history: vec![], state: init });
      }
      let nalpha = kinds.iter().map(|k| alphabet(*r, *c, k, tier).len()).max().unwrap_or(0);
      let nunits = ((nalpha + STMT_CHUNK - 1) / STMT_CHUNK) as u64;
      for d in 0..depth {
        let level = Level { r: *r, c: *c, entries: frontier.clone(), core_only: false };
        let path = format!("{}/{}-{}x{}-d{}.json", scratch, tier.name(), r, c, d);
        std::fs::write(&path, serde_json::to_string(&level).unwrap()).unwrap();
        let jobs = range_jobs(&path, nunits, 1);
        let mut next: BTreeMap<Mat, Vec<String>> = BTreeMap::new();
        run_jobs(cfg, jobs, &mut |ev| {
          if let Event::Done(_j, o) = &ev {
            for x in &o.extra {
              transitions += 1;
              if let Ok(m) = serde_json::from_value::<Mat>(x["state"].clone()) {
                if !seen.contains(&m) {
                  let from = x["from"].as_u64().unwrap_or(0) as usize;
                  let mut h = level.entries[from].history.clone();
                  h.push(x["stmt"].as_str().unwrap_or("").to_string());
                  // keep the lexicographically smallest history for determinism
                  let e = next.entry(m).or_insert(h.clone());
                  if h < *e { *e = h; }
                }
              }
            }
          }
          rep.absorb(ev);
        });
        rep.out.extra.clear();
        per_depth.insert(format!("{}x{}:depth{}", r, c, d + 1), json!({"frontier_states": frontier.len(), "new_states": next.len()}));
        let mut nf: Vec<Payload> = vec![];
        for (m, h) in next.into_iter() { seen.insert(m.clone()); nf.push(Payload { kind: m.kind.clone(), r: *r, c: *c, history: h, state: m }); }
        if d + 1 < depth && nf.len() > cap_per_level { capped = true; nf.truncate(cap_per_level); }
        frontier = nf;
      }
      total_states += seen.len() as u64;
    }
    // every other element kind: one level from the initial state over the reduced target set (all operators and sources)
    let sweep_kinds: Vec<&str> = ALL_KINDS.iter().copied().filter(|k| !kinds.contains(k)).collect();
    for (r, c) in &shapes {
      let mut entries = vec![];
      for kind in &sweep_kinds {
        let init = Mat { kind: kind.to_string(), r: *r, c: *c, e: init_values(kind, *r, *c).iter().map(|v| if *kind == "string" { v.clone() } else { super::c01::canon_text(kind, v) }).collect() };
        entries.push(Payload { kind: kind.to_string(), r: *r, c: *c, history: vec![], state: init });
      }
      let nalpha = sweep_kinds.iter().map(|k| alphabet(*r, *c, k, tier).len()).max().unwrap_or(0);
      let nunits = ((nalpha + STMT_CHUNK - 1) / STMT_CHUNK) as u64;
      let level = Level { r: *r, c: *c, entries, core_only: true };
      let path = format!("{}/{}-{}x{}-kinds.json", scratch, tier.name(), r, c);
      std::fs::write(&path, serde_json::to_string(&level).unwrap()).unwrap();
      run_jobs(cfg, range_jobs(&path, nunits, 4), &mut |ev| { if let Event::Done(_j, o) = &ev { transitions += o.extra.len() as u64; kind_sweep_transitions += o.extra.len() as u64; } rep.absorb(ev); });
      rep.out.extra.clear();
    }
    run_jobs(cfg, range_jobs("machine-statement", 8, 1), &mut |ev| rep.absorb(ev));
    rep.out.extra.clear();
    rep.cov("kind_sweep", json!({"kinds": sweep_kinds, "transitions": kind_sweep_transitions, "depth": 1, "targets": "reduced set (boundary scalars, two-element and full vectors, 1..d, ':', alternating mask per dimension; 1-D repeats)"}));
    // valid-rejected: a violation only where plain assignment through the same target form is supported on this storage class
    let supported = rep.out.sets.get("supported").cloned().unwrap_or_default();
    let before = rep.out.failures.len();
    rep.out.failures.retain(|f| {
      if let Some(rest) = f.key.strip_prefix("C04|valid-rejected|") {
        // locus = op:forms:src@storage
        let (l, sc) = rest.split_once('@').unwrap_or((rest, ""));
        let mut it = l.splitn(3, ':');
        let op = it.next().unwrap_or("");
        let forms = it.next().unwrap_or("");
        let src = it.next().unwrap_or("").split(':').next().unwrap_or("");
        let src = if src == "vector-literal" { "vector-literal" } else if src.starts_with("vector") { "vector" } else { src };
        // a scalar held by a variable is the same source as the scalar written as a literal: if the literal spelling is accepted
        // through this target form and operator, rejecting the variable spelling is a violation, not an unsupported combination
        // pinned: combinations accepted on the tree this check was written against (c04_supported.txt) stay judged even when a change
        // makes every assignment of that combination fail
        let has = |k: String| supported.contains(&k) || include_str!("c04_supported.txt").lines().any(|l| l == k);
        has(format!("{}|{}|{}|{}", sc, forms, op, src)) || (src == "scalar" && has(format!("{}|{}|{}|scalar-literal", sc, forms, op)))
      } else { true }
    });
    rep.cov("valid_rejections_on_unsupported_target_forms", json!(before - rep.out.failures.len()));
    rep.cov("supported_target_forms", json!(supported));
    rep.out.sets.remove("supported");
    rep.cov("states", json!(total_states));
    rep.cov("transitions", json!(transitions));
    rep.cov("traces_validated_against_impl", json!(transitions));
    rep.cov("per_depth", json!(per_depth));
    rep.cov("bounds", json!({"shapes": shapes, "kinds": kinds, "depth": depth, "frontier_cap_per_level": cap_per_level, "cap_hit": capped}));
    rep.exhaustive = !capped;
    rep.rule = format!("breadth-first search over assignment histories of one mutable matrix: states = distinct contents of x (shape, kind, elements); transitions = one statement of the alphabet \
      (every 1-D and 2-D target form incl. each out-of-range boundary and wrong mask length x source (scalar, wrong kind, vector of exact/short/long length) x operator = += -= *= /=) executed on the real interpreter \
      in a session built by replaying the state's history (sibling transitions share it, x is put back by whole-variable assignment and re-verified; any failure is re-confirmed on a session rebuilt from the history alone); after every transition the whole of x is compared with the reference store, and the written index is read back. depth {} from every initial (shape, kind); \
      evaluations = transitions; non-trivial = transitions the reference fixes (written values or must-fail-and-leave-x-unchanged)", depth);
    rep.assumptions = vec![
      "there is no separate model whose traces could diverge: every transition is executed on the real code (traces_validated_against_impl = transitions)".into(),
      "a repeated position in a vector target is judged in full for plain assignment of a scalar and by the frame condition otherwise; empty selections must leave x unchanged; degenerate ranges, sources whose length differs from the target and unrepresentable op-assign results are not judged beyond shape/kind preservation".into(),
      "a valid statement that is rejected counts as a violation only if the same (target form pair, operator, source class) is accepted for some other value/state on that storage class; otherwise the combination is unsupported (e.g. todo!() op-assign forms), listed in evidence, not judged".into(),
    ];
    if transitions < 1000 { rep.vacuity.push(format!("only {} transitions", transitions)); }
  }
}

/// every target form with its index values bound as state variables of a machine whose transition *is* the assignment statement
/// (the one place where a statement runs inside a local environment); globals of the same names hold other positions
pub const MS_FORMS: [&str; 18] = ["i", "i, j", "i..=j", "[i j]", "i, :", ":, j", "i..=j, :", ":, i..=j", "i..=j, j", "j, i..=j", "i..=j, i..=j", "[i j], j", "j, [i j]", "[i j], [j i]", "[i j], :", ":, [i j]", "i + 1, j", "i, j - 1"];

fn machine_statement_unit(unit: u64, out: &mut WorkerOut) {
  let ops = ["=", "+=", "-=", "*=", "/="];
  let kinds = ["f64", "u8"];
  let (oi, ki) = ((unit % 4) as usize, (unit / 4) as usize);
  if ki >= kinds.len() { return; }
  let kind = kinds[ki];
  let lit = |v: i64| if kind == "u8" { format!("{}u8", v) } else { v.to_string() };
  let (r, c) = (3usize, 4usize);
  let vals: Vec<String> = (0..r * c).map(|n| format!("{}", 20 + 2 * n)).collect();
  let defx = super::c01::define_matrix("x", kind, &vals, r, c).replacen("x<", "~x<", 1);
  let opset: Vec<&str> = if oi == 0 { vec!["="] } else if oi == 1 { vec!["+=", "-="] } else if oi == 2 { vec!["*=", "/="] } else { vec!["=", "+="] };
  let srcs: Vec<(&str, String)> = if oi == 3 { vec![("state-variable", "k".to_string())] } else { vec![("literal", lit(2)), ("global-variable", "gs".to_string())] };
  for (iv, jv) in [(1i64, 2i64), (2, 3), (1, 3)] {
    for form in MS_FORMS.iter() {
      for op in opset.iter() { for (sname, src) in srcs.iter() {
        let subst = |t: &str, a: &str, b: &str| -> String { t.split_inclusive(|ch: char| !ch.is_alphanumeric()).map(|tok| { let (w, rest) = match tok.char_indices().last() { Some((p, ch)) if !ch.is_alphanumeric() => (&tok[..p], &tok[p..]), _ => (tok, "") }; format!("{}{}", match w { "i" => a, "j" => b, o => o }, rest) }).collect() };
        // reference: the same statement at top level with literal positions (judged on its own by the search above)
        let mut s1 = Session::new();
        if !s1.run(&defx).is_value() { out.count("machine_statement_setup_rejected"); return; }
        s1.run(&format!("gs := {}", lit(2))); s1.run(&format!("k := {}", lit(2)));
        // a state variable holds a value, not a reference to a variable: its top-level counterpart is the literal
        let top = format!("x[{}] {} {}", subst(form, &iv.to_string(), &jv.to_string()), op, if *sname == "state-variable" { lit(2) } else { src.clone() });
        let o1 = s1.run(&top);
        let x1 = s1.get("x");
        // subject: the statement as the transition of a machine, positions as state variables, shadowed by globals i := 1, j := 1
        let mut s2 = Session::new();
        s2.run(&defx); s2.run(&format!("gs := {}", lit(2))); s2.run("i := 1"); s2.run("j := 1"); s2.run(&format!("k := {}", lit(9)));
        let machine = format!("#W(i<f64>, j<f64>, k<{kd}>) => <f64>\n  ├ :A(i<f64>, j<f64>, k<{kd}>)\n  └ :D(r<f64>).\n\n#W(i<f64>, j<f64>, k<{kd}>) -> :A(i, j, k)\n  :A(i, j, k)\n    ├ i > 0 -> x[{f}] {op} {src} -> :D(0)\n    └ * -> :D(1)\n  :D(r) => r.", kd = kind, f = form, op = op, src = src);
        out.evaluations += 1;
        if !s2.run(&machine).is_value() { out.count("machine_statement_unparsable"); out.set("machine_statement_rejected_forms", &format!("{} {}", form, op)); continue; }
        let o2 = s2.run(&format!("y := #W({}, {}, {})", iv, jv, lit(2)));
        let x2 = s2.get("x");
        let case = format!("{} ; i := 1 ; j := 1 (globals) ; {} ;; y := #W({}, {}, {})   versus   {}", defx, machine.replace('\n', " ⏎ "), iv, jv, lit(2), top);
        let locus = format!("{}:{}:{}", op, form, sname);
        if let Outcome::Panic(m) = &o2 { out.fail(format!("C04|panic|machine-statement:{}", locus), case, m.clone()); continue; }
        out.nontrivial += 1;
        if x1 != x2 { out.fail(format!("C04|machine-statement-differs|{}", locus), case, format!("at top level x becomes {:?} ({}), as a machine transition {:?} ({})", x1.map(|c| c.short()), o1.short(), x2.map(|c| c.short()), o2.short())); }
        else if o1.is_value() != o2.is_value() { out.fail(format!("C04|machine-statement-differs|{}", locus), case, format!("top level: {}, machine: {}", o1.short(), o2.short())); }
        else { out.count(if o1.is_value() { "machine_statement_agrees" } else { "machine_statement_both_rejected" }); }
      } }
    }
  }
}
