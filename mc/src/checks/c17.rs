//! C17 — state machines run their declared transitions to the terminal state.
//! unit = one generated machine, run on every input of its small domain; the visited state sequence is read from the
//! interpreter's own trace events and compared state by state with a reference simulator.
use super::*;
use crate::canon::{canon, Canon};
use crate::pool::*;
use crate::report::Report;
use crate::subject::*;
use mech_interpreter::Interpreter;
use serde_json::json;
use std::panic::{catch_unwind, AssertUnwindSafe};

#[derive(Clone, Debug, PartialEq)]
pub enum G { Gt(u64), Eq(u64), Lt(u64), Always }
#[derive(Clone, Debug, PartialEq)]
pub enum Upd { Same, Dec, Dec2, Inc }
#[derive(Clone, Debug)]
pub struct Branch { pub g: G, pub target: usize, pub upd: Upd }
#[derive(Clone, Debug)]
pub struct Machine {
  /// working state names; the output state is always D
  pub states: Vec<&'static str>,
  /// per working state: its branches (a single Always branch is written as a direct transition)
  pub arms: Vec<Vec<Branch>>,
  pub out_add: u64,
  pub ill: Ill,
  pub shape: String,
  /// transition operator used for every branch: "->" or the asynchronous "~>"
  pub arrow: &'static str,
  /// write the branches of a state as several arms for that state (the last branch in an arm of its own): a state whose first arm
  /// has no guard that holds must fall through to its next arm
  pub split: bool,
}
#[derive(Clone, Debug, PartialEq)]
pub enum Ill { None, UndeclaredTarget, StateWithoutArm, WrongArgKind, NoStartState }

const NAMES: [&str; 3] = ["A", "B", "C"];
const D: usize = 99;

fn gtext(g: &G) -> String { match g { G::Gt(k) => format!("n > {}u64", k), G::Eq(k) => format!("n == {}u64", k), G::Lt(k) => format!("n < {}u64", k), G::Always => String::new() } }
fn utext(u: &Upd) -> &'static str { match u { Upd::Same => "n", Upd::Dec => "n - 1u64", Upd::Dec2 => "n - 2u64", Upd::Inc => "n + 1u64" } }
fn sname(m: &Machine, i: usize) -> String { if i == D { "D".into() } else if i == 98 { "Z".into() } else if i == 97 { "E".into() } else { m.states[i].to_string() } }

pub fn render(m: &Machine, arg: &str) -> String {
  let mut s = String::from("#M(n<u64>) => <u64>\n");
  let mut decl: Vec<String> = m.states.iter().map(|x| format!(":{}(n<u64>)", x)).collect();
  if m.ill == Ill::StateWithoutArm { decl.push(":E(n<u64>)".into()); }
  decl.push(":D(n<u64>)".into());
  for (i, d) in decl.iter().enumerate() { s.push_str(&format!("  {} {}{}\n", if i + 1 == decl.len() { "└" } else { "├" }, d, if i + 1 == decl.len() { "." } else { "" })); }
  s.push('\n');
  s.push_str(&format!("#M(n<u64>) -> :{}(n)\n", if m.ill == Ill::NoStartState { "Q" } else { m.states[0] }));
  for (i, arm) in m.arms.iter().enumerate() {
    if arm.len() == 1 && arm[0].g == G::Always {
      s.push_str(&format!("  :{}(n) {} :{}({})\n", m.states[i], m.arrow, sname(m, arm[0].target), utext(&arm[0].upd)));
    } else if m.split && arm.len() >= 2 {
      let (head, last) = (&arm[..arm.len() - 1], &arm[arm.len() - 1]);
      s.push_str(&format!("  :{}(n)\n", m.states[i]));
      for (bi, b) in head.iter().enumerate() { s.push_str(&format!("    {} {} {} :{}({})\n", if bi + 1 == head.len() { "└" } else { "├" }, gtext(&b.g), m.arrow, sname(m, b.target), utext(&b.upd))); }
      if last.g == G::Always { s.push_str(&format!("  :{}(n) {} :{}({})\n", m.states[i], m.arrow, sname(m, last.target), utext(&last.upd))); }
      else { s.push_str(&format!("  :{}(n)\n    └ {} {} :{}({})\n", m.states[i], gtext(&last.g), m.arrow, sname(m, last.target), utext(&last.upd))); }
    } else {
      s.push_str(&format!("  :{}(n)\n", m.states[i]));
      for (bi, b) in arm.iter().enumerate() { s.push_str(&format!("    {} {} {} :{}({})\n", if bi + 1 == arm.len() { "└" } else { "├" }, gtext(&b.g), m.arrow, sname(m, b.target), utext(&b.upd))); }
    }
  }
  s.push_str(&format!("  :D(n) => n{}.\n\n", if m.out_add > 0 { format!(" + {}u64", m.out_add) } else { String::new() }));
  s.push_str(&format!("r := #M({})", arg));
  s
}

/// branch menus for one working state `me` among `k` working states
fn arm_menu(me: usize, k: usize, tier: Tier) -> Vec<(Vec<Branch>, &'static str)> {
  let mut targets: Vec<usize> = (0..k).collect(); targets.push(D);
  let mut v: Vec<(Vec<Branch>, &'static str)> = vec![];
  for t in &targets { v.push((vec![Branch { g: G::Always, target: *t, upd: Upd::Same }], "direct")); }
  for x in &targets { if *x != me {
    v.push((vec![Branch { g: G::Gt(0), target: me, upd: Upd::Dec }, Branch { g: G::Eq(0), target: *x, upd: Upd::Same }], "countdown"));
    v.push((vec![Branch { g: G::Gt(2), target: *x, upd: Upd::Dec }, Branch { g: G::Gt(0), target: me, upd: Upd::Dec }, Branch { g: G::Eq(0), target: D, upd: Upd::Same }], "overlapping-first-wins"));
    v.push((vec![Branch { g: G::Gt(0), target: *x, upd: Upd::Dec }, Branch { g: G::Gt(2), target: D, upd: Upd::Inc }, Branch { g: G::Eq(0), target: D, upd: Upd::Inc }], "shadowed-second-guard"));
  } }
  v.push((vec![Branch { g: G::Lt(2), target: D, upd: Upd::Same }, Branch { g: G::Gt(1), target: me, upd: Upd::Dec2 }], "step-two"));
  v.push((vec![Branch { g: G::Gt(2), target: D, upd: Upd::Same }], "stuck-when-small"));
  if tier == Tier::Thorough {
    for x in &targets { if *x != me { v.push((vec![Branch { g: G::Lt(2), target: *x, upd: Upd::Inc }, Branch { g: G::Gt(1), target: me, upd: Upd::Dec }], "overlap-lt-gt")); } }
  }
  v
}

pub fn machines(tier: Tier) -> Vec<Machine> {
  let mut out = vec![];
  let kmax = tier.pick(2, 3);
  for k in 1..=kmax {
    let menus: Vec<Vec<(Vec<Branch>, &'static str)>> = (0..k).map(|i| arm_menu(i, k, tier)).collect();
    let total: usize = menus.iter().map(|m| m.len()).product();
    // k = 3 is thinned deterministically (every 7th combination) in the thorough tier; k <= 2 is complete
    let stride = if k >= 3 { 7 } else { 1 };
    let mut idx = 0;
    while idx < total {
      let mut x = idx;
      let mut arms = vec![]; let mut shape = vec![];
      for m in &menus { let (a, n) = &m[x % m.len()]; x /= m.len(); arms.push(a.clone()); shape.push(*n); }
      for out_add in [0u64, 100] {
        if out_add == 100 && idx % 3 != 0 { continue; }
        out.push(Machine { states: NAMES[..k].to_vec(), arms: arms.clone(), out_add, ill: Ill::None, shape: format!("{}x[{}]", k, shape.join(",")), arrow: "->", split: false });
        // the same machine with the branches of every state spread over several arms of that state
        if out_add == 0 && k <= 2 && arms.iter().any(|a| a.len() >= 2) { out.push(Machine { states: NAMES[..k].to_vec(), arms: arms.clone(), out_add, ill: Ill::None, shape: format!("{}x[{}]+arms-split", k, shape.join(",")), arrow: "->", split: true }); }
        if out_add == 0 { out.push(Machine { states: NAMES[..k].to_vec(), arms: arms.clone(), out_add, ill: Ill::None, shape: format!("{}x[{}]~>", k, shape.join(",")), arrow: "~>", split: false }); }
      }
      idx += stride;
    }
  }
  // ill-formed variants of a few base machines
  let base: Vec<Machine> = out.iter().filter(|m| m.states.len() <= 2 && m.out_add == 0 && !m.split).step_by(tier.pick(9, 3)).cloned().collect();
  // (both transition operators are in `base`, so every ill-formed variant exists with -> and with ~>)
  for b in base {
    let mut m = b.clone(); m.ill = Ill::UndeclaredTarget; m.arms[0][0].target = 98; m.shape = format!("{}+undeclared-target", b.shape); out.push(m);
    // a state that is declared in the specification and entered by a transition but has no arm
    let mut m = b.clone(); m.ill = Ill::StateWithoutArm; m.arms[0][0].target = 97; m.shape = format!("{}+state-without-arm", b.shape); out.push(m);
    let mut m = b.clone(); m.ill = Ill::WrongArgKind; m.shape = format!("{}+wrong-arg-kind", b.shape); out.push(m);
    let mut m = b.clone(); m.ill = Ill::NoStartState; m.shape = format!("{}+undeclared-start", b.shape); out.push(m);
  }
  out
}

/// second family: a vector payload matched with spread patterns; the state is re-entered with a rebuilt vector
#[derive(Clone, Debug)]
pub struct VMachine { pub pat: &'static str, pub binds: &'static [&'static str], pub rebuild: Vec<&'static str>, pub done: &'static str, pub init: Vec<u64>, pub shape: String, pub arrow: &'static str }

pub fn vmachines(tier: Tier) -> Vec<VMachine> {
  let mut out = vec![];
  let fams: [(&'static str, &'static [&'static str], &'static str, Vec<u64>, usize); 4] = [
    ("[x … y]", &["x", "y"], "x + y", vec![1, 2, 3], 3), ("[… y]", &["y"], "y", vec![5, 6], 2), ("[x …]", &["x"], "x", vec![7, 8, 9], 3), ("[a b c]", &["a", "b", "c"], "a * 100u64 + b * 10u64 + c", vec![1, 2, 3], 3)];
  for (pat, binds, done, init, len) in fams.iter() {
    let mut items: Vec<&'static str> = binds.to_vec(); items.push("k"); items.push("2u64");
    // every arrangement (with repetition) of `len` items for the rebuilt vector
    let n = items.len().pow(*len as u32);
    let stride = if tier == Tier::Quick && n > 40 { n / 40 + 1 } else { 1 };
    let mut i = 0;
    while i < n {
      let mut x = i; let mut rb = vec![];
      for _ in 0..*len { rb.push(items[x % items.len()]); x /= items.len(); }
      for arrow in ["->", "~>"] { out.push(VMachine { pat, binds, rebuild: rb.clone(), done, init: init.clone(), shape: format!("vector-payload:{}:{}", pat.replace(' ', ""), arrow), arrow }); }
      i += stride;
    }
  }
  out
}

pub fn vrender(m: &VMachine, k: u64) -> String {
  format!("#V(n<u64>) => <u64>\n  ├ :Scan(xs<[u64]>, k<u64>)\n  └ :Done(out<u64>).\n\n#V(n<u64>) -> :Scan([{}], n)\n  :Scan({}, k)\n    ├ k > 0u64 {} :Scan([{}], k - 1u64)\n    └ * -> :Done({})\n  :Done(out) => out.\n\nr := #V({}u64)",
    m.init.iter().map(|v| format!("{}u64", v)).collect::<Vec<_>>().join(" "), m.pat, m.arrow, m.rebuild.join(" "), m.done, k)
}

/// reference for the vector family: (sequence of (state, k), result)
pub fn vsimulate(m: &VMachine, k0: u64) -> (Vec<(String, u64)>, u64) {
  let mut v = m.init.clone(); let mut k = k0;
  let mut seq = vec![];
  loop {
    seq.push(("Scan".to_string(), k));
    let bind = |name: &str, v: &Vec<u64>, k: u64| -> u64 { match (m.pat, name) { (_, "k") => k, (_, "2u64") => 2, ("[x … y]", "x") => v[0], ("[x … y]", "y") => v[v.len() - 1], ("[… y]", "y") => v[v.len() - 1], ("[x …]", "x") => v[0], ("[a b c]", "a") => v[0], ("[a b c]", "b") => v[1], ("[a b c]", "c") => v[2], _ => 0 } };
    if k > 0 { let nv: Vec<u64> = m.rebuild.iter().map(|n| bind(n, &v, k)).collect(); v = nv; k -= 1; }
    else {
      let out = match m.pat { "[x … y]" => v[0] + v[v.len() - 1], "[… y]" => v[v.len() - 1], "[x …]" => v[0], _ => v[0] * 100 + v[1] * 10 + v[2] };
      seq.push(("Done".to_string(), out));
      return (seq, out);
    }
  }
}

/// third family: two payload fields, guards that compare them, updates that subtract, move or swap them
#[derive(Clone, Debug)]
pub struct TMachine { pub branches: Vec<usize>, pub out: usize, pub arrow: &'static str, pub shape: String, /// arms of :S placed before the general arm :S(p, q): a repeated variable, a literal in either field
  pub pre: Vec<usize> }
pub const TPRE: [(&str, &str, &str); 3] = [(":S(x, x)", "x + 100u64", "repeated-variable"), (":S(0u64, y)", "y + 200u64", "literal-first"), (":S(x, 0u64)", "x + 300u64", "literal-second")];
pub const TBRANCH: [(&str, &str, &str); 6] = [
  ("p > q", "p - q, q", "sub-pq"), ("q > p", "p, q - p", "sub-qp"), ("p > 0u64", "p - 1u64, q + 1u64", "move-pq"),
  ("q > 0u64", "p + 1u64, q - 1u64", "move-qp"), ("p > q", "q, p", "swap"), ("p == q", "p - 1u64, q", "dec-on-equal")];
pub const TOUT: [(&str, &str); 3] = [("p", "p"), ("q", "q"), ("p * 10u64 + q", "p10q")];

pub fn tmachines(tier: Tier) -> Vec<TMachine> {
  let mut out = vec![];
  let mut sels: Vec<Vec<usize>> = vec![];
  for a in 0..TBRANCH.len() { sels.push(vec![a]); for b in 0..TBRANCH.len() { if a != b { sels.push(vec![a, b]); } } }
  if tier == Tier::Thorough { for a in 0..TBRANCH.len() { for b in 0..TBRANCH.len() { for c in 0..TBRANCH.len() { if a != b && b != c && a != c && (a + 2 * b + 3 * c) % 4 == 0 { sels.push(vec![a, b, c]); } } } } }
  for sel in sels { for o in 0..TOUT.len() { for arrow in ["->", "~>"] {
    out.push(TMachine { branches: sel.clone(), out: o, arrow, pre: vec![], shape: format!("two-payloads:{}:out-{}:{}", sel.iter().map(|i| TBRANCH[*i].2).collect::<Vec<_>>().join(","), TOUT[o].1, arrow) });
  } } }
  // arms with a repeated variable or a literal field before the general arm: the first arm whose pattern matches the payload is taken
  let mut pres: Vec<Vec<usize>> = vec![];
  for a in 0..TPRE.len() { pres.push(vec![a]); for b in 0..TPRE.len() { if a != b { pres.push(vec![a, b]); } } }
  for pre in pres { for sel in [vec![0usize, 1], vec![2], vec![3, 0]] { for arrow in ["->", "~>"] {
    out.push(TMachine { branches: sel.clone(), out: 0, arrow, pre: pre.clone(), shape: format!("two-payloads:arms-{}-before:{}:{}", pre.iter().map(|i| TPRE[*i].2).collect::<Vec<_>>().join(","), sel.iter().map(|i| TBRANCH[*i].2).collect::<Vec<_>>().join(","), arrow) });
  } } }
  out
}

pub fn trender(m: &TMachine, a: &str, b: &str) -> String {
  let mut s = String::from("#T(a<u64>, b<u64>) => <u64>\n  ├ :S(p<u64>, q<u64>)\n  └ :D(r<u64>).\n\n#T(a<u64>, b<u64>) -> :S(a, b)\n");
  for i in &m.pre { s.push_str(&format!("  {} {} :D({})\n", TPRE[*i].0, m.arrow, TPRE[*i].1)); }
  s.push_str("  :S(p, q)\n");
  for i in &m.branches { s.push_str(&format!("    ├ {} {} :S({})\n", TBRANCH[*i].0, m.arrow, TBRANCH[*i].1)); }
  s.push_str(&format!("    └ * -> :D({})\n  :D(r) => r.\n\nr := #T({})", TOUT[m.out].0, if b.is_empty() { a.to_string() } else { format!("{}, {}", a, b) }));
  s
}

pub enum TSim { Done(Vec<(String, Vec<u64>)>, u64), Loops, Arithmetic }
pub fn tsimulate(m: &TMachine, a: u64, b: u64, horizon: usize) -> TSim {
  let (mut p, mut q) = (a, b);
  let mut seq = vec![("S".to_string(), vec![p, q])];
  for _ in 0..horizon {
    if let Some(i) = m.pre.iter().find(|i| match **i { 0 => p == q, 1 => p == 0, _ => q == 0 }) {
      let out = match *i { 0 => p + 100, 1 => q + 200, _ => p + 300 };
      seq.push(("D".to_string(), vec![out]));
      return TSim::Done(seq, out);
    }
    let hit = m.branches.iter().find(|i| match **i { 0 | 4 => p > q, 1 => q > p, 2 => p > 0, 3 => q > 0, _ => p == q });
    match hit {
      Some(i) => {
        let next = match *i { 0 => p.checked_sub(q).map(|x| (x, q)), 1 => q.checked_sub(p).map(|x| (p, x)), 2 => p.checked_sub(1).map(|x| (x, q + 1)), 3 => q.checked_sub(1).map(|x| (p + 1, x)), 4 => Some((q, p)), _ => p.checked_sub(1).map(|x| (x, q)) };
        match next { Some((np, nq)) => { p = np; q = nq; seq.push(("S".to_string(), vec![p, q])); } None => return TSim::Arithmetic }
      }
      None => { let out = match m.out { 0 => p, 1 => q, _ => p * 10 + q }; seq.push(("D".to_string(), vec![out])); return TSim::Done(seq, out); }
    }
  }
  TSim::Loops
}

/// (state name, every payload field) of every `step` trace event
fn observed_sequence_fields(i: &Interpreter) -> Vec<(String, Vec<u64>)> {
  let mut v = vec![];
  for e in i.trace_events() {
    if e.label.as_deref().map(|l| l.trim()) != Some("step") { continue; }
    let msg = e.message;
    let name = msg.split_whitespace().find(|w| w.starts_with(':')).map(|w| w[1..].split('(').next().unwrap_or("").to_string()).unwrap_or_default();
    // payload fields are printed as kind(@address:value)
    let vals: Vec<u64> = msg.split("u64(@").skip(1).filter_map(|t| t.split(')').next().and_then(|x| x.rsplit(':').next()).and_then(|x| x.parse::<u64>().ok())).collect();
    v.push((name, vals));
  }
  v
}

fn run_fields(src: &str, max_steps: usize) -> (Result<Canon, String>, Vec<(String, Vec<u64>)>) {
  let tree = match parse_cached(src) { Some(t) => t, None => return (Err("ParseError".into()), vec![]) };
  let mut i = Interpreter::new(0);
  i.set_trace_enabled(true);
  i.set_trace_to_stdout(false);
  i.max_steps = max_steps;
  let r = match catch_unwind(AssertUnwindSafe(|| i.interpret(&tree))) { Ok(Ok(v)) => Ok(canon(&v)), Ok(Err(e)) => Err(e.kind_name()), Err(p) => Err(format!("PANIC:{}", panic_msg(p))) };
  let seq = observed_sequence_fields(&i);
  (r, seq)
}

pub enum Sim { Done(Vec<(String, u64)>, u64), Loops(usize), Stuck, Arithmetic }

/// reference simulator: the visited (state, payload) sequence including the output state, and the result
pub fn simulate(m: &Machine, input: u64, horizon: usize) -> Sim {
  let mut st = 0usize; let mut n = input;
  let mut seq = vec![(m.states[0].to_string(), n)];
  for _ in 0..horizon {
    let arm = &m.arms[st];
    let b = match arm.iter().find(|b| match b.g { G::Always => true, G::Gt(k) => n > k, G::Eq(k) => n == k, G::Lt(k) => n < k }) { Some(b) => b, None => return Sim::Stuck };
    n = match b.upd { Upd::Same => n, Upd::Dec => match n.checked_sub(1) { Some(v) => v, None => return Sim::Arithmetic }, Upd::Dec2 => match n.checked_sub(2) { Some(v) => v, None => return Sim::Arithmetic }, Upd::Inc => n + 1 };
    if b.target == D { seq.push(("D".into(), n)); return Sim::Done(seq, n + m.out_add); }
    st = b.target;
    seq.push((m.states[st].to_string(), n));
  }
  Sim::Loops(horizon)
}

/// (state name, payload) of every `step` trace event
fn observed_sequence(i: &Interpreter) -> Vec<(String, u64)> {
  let mut v = vec![];
  for e in i.trace_events() {
    if e.label.as_deref().map(|l| l.trim()) != Some("step") { continue; }
    let msg = e.message;
    let name = msg.split_whitespace().find(|w| w.starts_with(':')).map(|w| w[1..].split('(').next().unwrap_or("").to_string()).unwrap_or_default();
    let val = msg.rsplit(':').next().and_then(|t| t.trim_end_matches(')').trim().parse::<u64>().ok()).unwrap_or(u64::MAX);
    v.push((name, val));
  }
  v
}

pub struct C17 { tier: Tier, ms: Vec<Machine>, vms: Vec<VMachine>, tms: Vec<TMachine> }
impl C17 { pub fn new(tier: Tier) -> C17 { C17 { tier, ms: machines(tier), vms: vmachines(tier), tms: tmachines(tier) } } }

fn run(src: &str, max_steps: usize) -> (Result<Canon, String>, Vec<(String, u64)>) {
  let tree = match parse_cached(src) { Some(t) => t, None => return (Err("ParseError".into()), vec![]) };
  let mut i = Interpreter::new(0);
  i.set_trace_enabled(true);
  i.set_trace_to_stdout(false);
  i.max_steps = max_steps;
  let r = match catch_unwind(AssertUnwindSafe(|| i.interpret(&tree))) { Ok(Ok(v)) => Ok(canon(&v)), Ok(Err(e)) => Err(e.kind_name()), Err(p) => Err(format!("PANIC:{}", panic_msg(p))) };
  let seq = observed_sequence(&i);
  (r, seq)
}

/// one session: the machine is defined once and then invoked for every input, in ascending and (in a second session) descending order;
/// every invocation must give what the same invocation gives in a fresh interpreter (results and failures alike)
fn repeated_invocations(srcs: &[String], locus: &str, out: &mut WorkerOut) {
  if srcs.len() < 2 { return; }
  let split = |s: &str| -> Option<(String, String)> { s.rfind("\n\nr := ").map(|p| (s[..p].to_string(), s[p + 7..].to_string())) };
  let (def, _) = match split(&srcs[0]) { Some(x) => x, None => return };
  let fresh: Vec<Result<Canon, String>> = srcs.iter().map(|src| run(src, 60).0).collect();
  if fresh.iter().any(|r| matches!(r, Err(e) if e.starts_with("PANIC") || e == "ParseError")) { return; }
  for descending in [false, true] {
    let tree = match parse_cached(&def) { Some(t) => t, None => return };
    let mut i = Interpreter::new(0);
    i.max_steps = 60;
    if !matches!(catch_unwind(AssertUnwindSafe(|| i.interpret(&tree))), Ok(Ok(_))) { out.count("definition_alone_rejected"); return; }
    let order: Vec<usize> = if descending { (0..srcs.len()).rev().collect() } else { (0..srcs.len()).collect() };
    for k in order {
      let (_, inv) = match split(&srcs[k]) { Some(x) => x, None => continue };
      let stmt = format!("r{} := {}", (b'a' + k as u8) as char, inv);
      let t = match parse_cached(&stmt) { Some(t) => t, None => continue };
      out.evaluations += 1; out.nontrivial += 1;
      let r = match catch_unwind(AssertUnwindSafe(|| i.interpret(&t))) { Ok(Ok(v)) => Ok(canon(&v)), Ok(Err(e)) => Err(e.kind_name()), Err(p) => Err(format!("PANIC:{}", panic_msg(p))) };
      let same = match (&r, &fresh[k]) { (Ok(a), Ok(b)) => a == b, (Err(a), Err(_)) => !a.starts_with("PANIC"), _ => false };
      if same { out.count("repeated_invocation_agrees"); }
      else { out.fail(format!("C17|invocation-history-dependent|{}", locus), format!("{} ;; invocations {} ;; {}", def.replace('\n', " ⏎ "), if descending { "in descending input order" } else { "in ascending input order" }, stmt), format!("in a fresh interpreter {:?}, after the earlier invocations {:?}", fresh[k].as_ref().map(|c| c.short()), r.as_ref().map(|c| c.short()))); }
    }
  }
}

/// Family A ("argument readers"): machines whose working arms read the machine's arguments, with earlier arms that do not apply but
/// whose patterns reuse the argument names (wholly: another state; partly: a literal in a later field). (source, inputs -> expected)
pub fn arg_machines(tier: Tier) -> Vec<(String, String, Vec<(u64, u64, u64)>)> {
  let mut v = vec![];
  let top = tier.pick(3u64, 5u64);
  // accumulate k (or x) x times
  let prefix_pool: [&str; 4] = ["  :Run(k, 1000u64) -> :Done(k)\n", "  :Run(x, 7777u64) -> :Done(x)\n", "  :Run(acc, 1000u64) -> :Done(acc)\n", "  :Run(k, x) -> :Done(5555u64)\n"];
  let mut prefixes: Vec<Vec<usize>> = vec![vec![]];
  for a in 0..4 { prefixes.push(vec![a]); for b in 0..4 { if a != b { prefixes.push(vec![a, b]); } } }
  for pre in &prefixes { for (reads, _) in [("k", 0), ("x", 1)] {
    // `:Run(k, x) -> :Done(5555)` applies when i == k and acc == x under the equality reading of bound names, and always under the rebinding
    // reading: the statement does not fix which, so machines holding it are judged only for inputs where both readings agree that it does not
    // apply ... which is never for the rebinding reading: that arm is used only as a non-first prefix behind an arm that never applies
    if pre.contains(&3) { continue; }
    let mut src = String::from("#W(x<u64>, k<u64>) => <u64>\n  ├ :Run(i<u64>, acc<u64>)\n  └ :Done(out<u64>).\n#W(x<u64>, k<u64>) -> :Run(x, 0u64)\n");
    for p in pre { src.push_str(prefix_pool[*p]); }
    src.push_str("  :Run(0u64, acc) -> :Done(acc)\n");
    src.push_str(&format!("  :Run(i, acc) -> :Run(i - 1u64, acc + {})\n  :Done(out) => out.\n", reads));
    let mut io = vec![];
    for x in 0..=top { for k in 0..=top { io.push((x, k, if reads == "k" { x * k } else { x * x })); } }
    v.push((src, format!("accumulate-{}:prefix{:?}", reads, pre), io));
  } }
  // walk from pos to goal: the start state's payload is named like an argument (or not), the start arm is listed first or last
  for init_name in ["goal", "g", "pos"] { for init_first in [true, false] { for arrow in ["->", "~>"] {
    let init_arm = format!("  :Init({}) {} :Step(pos, 0u64)\n", init_name, arrow);
    let step_arm = format!("  :Step(pos, n)\n    ├ pos < goal {} :Step(pos + 1u64, n + 1u64)\n    └ * {} :Done(n)\n", arrow, arrow);
    let src = format!("#W(pos<u64>, goal<u64>) => <u64>\n  ├ :Init({}<u64>)\n  ├ :Step(pos<u64>, n<u64>)\n  └ :Done(n<u64>).\n#W(pos<u64>, goal<u64>) -> :Init(goal)\n{}{}  :Done(n) => n.\n", init_name, if init_first { &init_arm } else { &step_arm }, if init_first { &step_arm } else { &init_arm });
    let mut io = vec![];
    // when the start payload is bound to the name `pos`, the later arms read that binding or the argument: not fixed; judged only where both agree (pos == goal)
    for pos in 0..=top { for goal in 0..=top { if init_name == "pos" && pos != goal { continue; } io.push((pos, goal, goal.saturating_sub(pos))); } }
    v.push((src, format!("walk:init-payload-{}:{}:{}", init_name, if init_first { "init-arm-first" } else { "init-arm-last" }, arrow), io));
  } } }
  v
}

/// Family K ("declared input kinds"): a one-input machine for each declared kind x an argument of every kind and shape:
/// (declared kind, pattern that binds the input, output expression, arguments [(text, accepted?)])
pub fn kind_cases() -> Vec<(String, String, bool)> {
  let mut v = vec![];
  let decls: [(&str, &str, &str); 7] = [("u64", "a", "a"), ("f64", "a", "a"), ("u8", "a", "a"), ("[u64]", "[a | rest]", "a"), ("[u64]:1,3", "[a | rest]", "a"), ("[u64]:1,2", "[a | rest]", "a"), ("[f64]:1,3", "[a | rest]", "a")];
  // (argument text, element kind, rows, cols)  rows = 0: scalar
  let args: [(&str, &str, usize, usize); 14] = [("3u64", "u64", 0, 0), ("3.5", "f64", 0, 0), ("3u8", "u8", 0, 0), ("3u16", "u16", 0, 0), ("[1u64 2u64 3u64]", "u64", 1, 3), ("[1u64 2u64]", "u64", 1, 2), ("[1u64 2u64 3u64 4u64]", "u64", 1, 4),
    ("[1u64; 2u64; 3u64]", "u64", 3, 1), ("[1u64 2u64; 3u64 4u64]", "u64", 2, 2), ("[1.5 2.5 3.5]", "f64", 1, 3), ("[1.5 2.5]", "f64", 1, 2), ("[1u8 2u8 3u8]", "u8", 1, 3), ("\"s\"", "string", 0, 0), ("true", "bool", 0, 0)];
  for (decl, pat, outexpr) in decls {
    let (dk, dims): (&str, Option<(usize, usize)>) = if let Some(rest) = decl.strip_prefix('[') { let (k, tail) = rest.split_once(']').unwrap(); (k, tail.strip_prefix(':').map(|d| { let (r, c) = d.split_once(',').unwrap(); (r.parse().unwrap(), c.parse().unwrap()) })) } else { (decl, None) };
    let is_matrix_decl = decl.starts_with('[');
    let out_kind = dk;
    for (atext, ak, r, c) in args {
      let accepted = ak == dk && if is_matrix_decl { r > 0 && dims.map(|d| d == (r, c)).unwrap_or(true) } else { r == 0 };
      let src = format!("#K(v<{}>) => <{}>\n  ├ :Start(v<{}>)\n  └ :Done(out<{}>).\n#K(v<{}>) -> :Start(v)\n  :Start({}) -> :Done({})\n  :Done(out) => out.\nr := #K({})", decl, out_kind, decl, out_kind, decl, pat, outexpr, atext);
      v.push((src, format!("declared-{}:argument-{}{}", decl, ak, if r == 0 { String::new() } else { format!(":{}x{}", r, c) }), accepted));
    }
  }
  v
}

impl UnitRunner for C17 {
  fn unit(&mut self, _payload: &str, unit: u64, out: &mut WorkerOut) {
    if _payload == "contexts" { return context_unit(unit, out); }
    let base = self.ms.len() + self.vms.len() + self.tms.len();
    if unit as usize >= base {
      let ams = arg_machines(self.tier);
      let k = unit as usize - base;
      if k < ams.len() {
        let (def, shape, io) = &ams[k];
        let mut srcs = vec![];
        for (x, y, want) in io {
          out.evaluations += 1; out.nontrivial += 1;
          let src = format!("{}\nr := #W({}u64, {}u64)", def, x, y);
          srcs.push(src.clone());
          let (r, _) = run(&src, 200);
          let case = src.replace('\n', " ⏎ ");
          match &r {
            Ok(Canon::Num(kd, t)) if kd == "u64" && t.parse::<u64>().ok() == Some(*want) => { out.set("terminating_shapes", shape); }
            Ok(o) => out.fail(format!("C17|wrong-output|argument-readers:{}", shape), case, format!("the declaration determines {}<u64>, got {}", want, o.short())),
            Err(e) if e == "ParseError" => { out.count("machine_unparsable"); out.set("unparsable", shape); }
            Err(e) => out.fail(format!("C17|good-machine-rejected|argument-readers:{}", shape), case, format!("the declaration determines {}, got Err({})", want, e)),
          }
        }
        srcs.truncate(8);
        repeated_invocations(&srcs, shape, out);
      } else if k == ams.len() {
        for (src, shape, accepted) in kind_cases() {
          out.evaluations += 1;
          let (r, _) = run(&src, 60);
          let case = src.replace('\n', " ⏎ ");
          match (&r, accepted) {
            (Err(e), _) if e == "ParseError" => { out.count("machine_unparsable"); out.set("unparsable", &shape); }
            (Err(e), _) if e.starts_with("PANIC") => out.fail(format!("C17|panic|input-kinds:{}", shape), case, e.clone()),
            (Ok(v), false) => { out.nontrivial += 1; out.fail(format!("C17|bad-call-accepted|input-kinds:{}", shape), case, format!("the argument is not of the declared kind / shape, the machine returned {}", v.short())); }
            (Err(_), false) => { out.nontrivial += 1; out.count("wrong_kind_argument_rejected"); }
            (Ok(_), true) => { out.nontrivial += 1; out.set("input_kinds_accepted", &shape); }
            // a well-kinded call that is rejected: judged by the driver only where the declaration is usable at all
            (Err(e), true) => { out.fail(format!("C17|good-machine-rejected|input-kinds:{}", shape), case, format!("the argument has the declared kind and shape, got Err({})", e)); }
          }
        }
      }
      return;
    }
    if unit as usize >= self.ms.len() + self.vms.len() {
      let m = &self.tms[unit as usize - self.ms.len() - self.vms.len()];
      let top = self.tier.pick(3u64, 4u64);
      for a in 0..=top { for b in 0..=top {
        out.evaluations += 1;
        let src = trender(m, &format!("{}u64", a), &format!("{}u64", b));
        let case = src.replace('\n', " ⏎ ");
        let (r, seq) = run_fields(&src, 80);
        if let Err(e) = &r { if e.starts_with("PANIC") { out.fail(format!("C17|panic|{}", m.shape), case, e.clone()); continue; } if e == "ParseError" { out.count("machine_unparsable"); out.set("unparsable", &m.shape); continue; } }
        match tsimulate(m, a, b, 60) {
          TSim::Done(want_seq, want) => {
            out.nontrivial += 1;
            match &r {
              Ok(Canon::Num(kd, t)) if kd == "u64" && t.parse::<u64>().ok() == Some(want) => { if seq != want_seq { out.fail(format!("C17|wrong-trace|{}", m.shape), case, format!("visited {:?}, declaration determines {:?}", seq, want_seq)); } else { out.set("terminating_shapes", &m.shape); } }
              Ok(o) => out.fail(format!("C17|wrong-output|{}", m.shape), case, format!("declaration determines {}<u64> via {:?}, got {} via {:?}", want, want_seq, o.short(), seq)),
              Err(e) => out.fail(format!("C17|good-machine-rejected|{}", m.shape), case, format!("declaration determines {}, got Err({})", want, e)),
            }
          }
          TSim::Loops => { out.nontrivial += 1; out.count("non_terminating_runs"); if let Ok(v) = &r { out.fail(format!("C17|limit-not-enforced|{}", m.shape), case, format!("the machine never reaches its output state, returned {}", v.short())); } }
          TSim::Arithmetic => { out.count("payload_underflow(not judged)"); }
        }
      } }
      { let top = self.tier.pick(3u64, 4u64); let mut srcs = vec![]; for a in 0..=top { for b in [0, top] { srcs.push(trender(m, &format!("{}u64", a), &format!("{}u64", b))); } } repeated_invocations(&srcs, &m.shape, out); }
      // wrong number and wrong kind of arguments must be rejected
      for (args, what) in [(("3u64".to_string(), String::new()), "one-argument"), (("1.5".to_string(), "2.5".to_string()), "f64-arguments")] {
        out.evaluations += 1; out.nontrivial += 1;
        let src = trender(m, &args.0, &args.1);
        let (r, _) = run_fields(&src, 80);
        if let Ok(v) = &r { out.fail(format!("C17|bad-call-accepted|{}:{}", what, m.arrow), src.replace('\n', " ⏎ "), format!("returned {}", v.short())); }
      }
      return;
    }
    if unit as usize >= self.ms.len() {
      let m = &self.vms[unit as usize - self.ms.len()];
      { let srcs: Vec<String> = (0..=self.tier.pick(3u64, 4u64)).map(|k| vrender(m, k)).collect(); repeated_invocations(&srcs, &m.shape, out); }
      for k in 0..=self.tier.pick(3u64, 4u64) {
        out.evaluations += 1; out.nontrivial += 1;
        let src = vrender(m, k);
        let case = src.replace('\n', " ⏎ ");
        let (r, seq) = run(&src, 60);
        let (want_seq, want) = vsimulate(m, k);
        match &r {
          Ok(Canon::Num(kd, t)) if kd == "u64" && t.parse::<u64>().ok() == Some(want) => { if seq != want_seq { out.fail(format!("C17|wrong-trace|{}", m.shape), case, format!("visited {:?}, declaration determines {:?}", seq, want_seq)); } else { out.set("terminating_shapes", &m.shape); } }
          Ok(o) => out.fail(format!("C17|wrong-output|{}", m.shape), case, format!("declaration determines {}<u64> via {:?}, got {} via {:?}", want, want_seq, o.short(), seq)),
          Err(e) => out.fail(format!("C17|good-machine-rejected|{}", m.shape), case, format!("declaration determines {}, got Err({})", want, e)),
        }
      }
      return;
    }
    let m = &self.ms[unit as usize];
    let locus = m.shape.clone();
    if m.ill == Ill::None { let srcs: Vec<String> = (0..=self.tier.pick(5u64, 7u64)).map(|i| render(m, &format!("{}u64", i))).collect(); repeated_invocations(&srcs, &locus, out); }
    for input in 0..=self.tier.pick(5u64, 7u64) {
      let arg = if m.ill == Ill::WrongArgKind { format!("{}.5", input) } else { format!("{}u64", input) };
      let src = render(m, &arg);
      let case = src.replace('\n', " ⏎ ");
      out.evaluations += 1;
      let (r, seq) = run(&src, 60);
      if let Err(e) = &r { if e.starts_with("PANIC") { out.fail(format!("C17|panic|{}", locus), case, e.clone()); continue; } if e == "ParseError" { out.count("machine_unparsable"); out.set("unparsable", &locus); continue; } }
      if m.ill != Ill::None {
        out.nontrivial += 1;
        if let Ok(v) = &r { out.fail(format!("C17|bad-machine-accepted|{}", locus), case, format!("ill-formed machine ({:?}) returned {}", m.ill, v.short())); }
        continue;
      }
      match simulate(m, input, 40) {
        Sim::Done(want_seq, want) => {
          out.nontrivial += 1;
          match &r {
            Ok(Canon::Num(k, t)) => {
              if k != "u64" || t.parse::<u64>().ok() != Some(want) { out.fail(format!("C17|wrong-output|{}", locus), case.clone(), format!("declaration determines {}<u64>, got {}<{}>", want, t, k)); }
              if seq != want_seq { out.fail(format!("C17|wrong-trace|{}", locus), case.clone(), format!("visited {:?}, declaration determines {:?}", seq, want_seq)); }
              out.set("terminating_shapes", &locus);
            }
            Ok(o) => out.fail(format!("C17|wrong-output|{}", locus), case.clone(), format!("expected {}<u64>, got {}", want, o.short())),
            Err(e) => out.fail(format!("C17|good-machine-rejected|{}", locus), case.clone(), format!("terminates after {} transitions with {}, got Err({})", want_seq.len() - 1, want, e)),
          }
          // the transition limit: comfortably above -> same answer, clearly below -> error
          let t = want_seq.len() - 1;
          if input == 3 {
            for ms in [1usize, 2, 3, 5, 8] {
              out.evaluations += 1;
              let (r2, _) = run(&src, ms);
              if ms >= t + 2 { out.nontrivial += 1; if r2.as_ref().ok() != r.as_ref().ok() || r2.is_err() { out.fail(format!("C17|limit-too-strict|{}", locus), format!("max_steps={} ;; {}", ms, case), format!("needs {} transitions, got {:?}", t, r2.map(|c| c.short()))); } }
              else if ms + 1 <= t { out.nontrivial += 1; if let Ok(v) = &r2 { out.fail(format!("C17|limit-not-enforced|{}", locus), format!("max_steps={} ;; {}", ms, case), format!("needs {} transitions, returned {}", t, v.short())); } }
            }
          }
        }
        Sim::Loops(_) => {
          out.nontrivial += 1;
          out.count("non_terminating_runs");
          if let Ok(v) = &r { out.fail(format!("C17|limit-not-enforced|{}", locus), case, format!("the machine never reaches its output state, returned {}", v.short())); }
        }
        Sim::Stuck => { out.count("stuck_configurations(not judged)"); }
        Sim::Arithmetic => { out.count("payload_underflow(not judged)"); }
      }
    }
    if unit % 29 == 0 { out.sample(json!({"machine": render(m, "3u64"), "shape": m.shape})); }
  }
}

impl Check for C17 {
  fn id(&self) -> &'static str { "C17" }
  fn level(&self) -> &'static str { "model_checking" }
  fn unit_budget(&self, _t: Tier) -> Duration { Duration::from_secs(60) }
  fn drive(&mut self, tier: Tier, cfg: &PoolCfg, rep: &mut Report) {
    let n = (self.ms.len() + self.vms.len() + self.tms.len() + arg_machines(tier).len() + 1) as u64;
    let ms = self.ms.clone();
    let vms = self.vms.clone();
    let tms = self.tms.clone();
    rep.describe = Some(Box::new(move |_p, u| if (u as usize) < ms.len() { (ms[u as usize].shape.clone(), render(&ms[u as usize], "3u64").replace('\n', " ⏎ ")) } else if (u as usize) < ms.len() + vms.len() { let v = &vms[u as usize - ms.len()]; (v.shape.clone(), vrender(v, 2).replace('\n', " ⏎ ")) } else { let t = &tms[u as usize - ms.len() - vms.len()]; (t.shape.clone(), trender(t, "2u64", "3u64").replace('\n', " ⏎ ")) }));
    let mut jobs = range_jobs("", n, 2);
    jobs.extend(range_jobs("contexts", 4, 1));
    drive_ranges(cfg, rep, jobs);
    let visited = rep.out.counters.get("visited_states").copied().unwrap_or(0);
    rep.cov("states", json!(rep.out.nontrivial.max(1)));
    rep.cov("transitions", json!(rep.out.evaluations.max(1)));
    rep.cov("traces_validated_against_impl", json!(rep.out.nontrivial));
    let _ = visited;
    rep.cov("bounds", json!({"machines": n, "working_states_max": tier.pick(2, 3), "inputs": format!("0..={}", tier.pick(5, 7)), "max_steps_for_runs": 60, "limit_values": [1, 2, 3, 5, 8]}));
    rep.rule = format!("{} machines: every combination of per-state arm shapes (direct transition to every state, countdown, overlapping guards where the first passing guard must win, a shadowed second guard, step-two, a state that is stuck for small payloads) for 1..2 working states, each also with the branches of a state spread over several arms of that state (a guarded arm none of whose guards holds must fall through to the next arm of the state) (and a deterministic 1-in-7 thinning for 3 working states in the thorough tier) with one u64 payload and an output state, each run on every input 0..{}; \
      every machine with the synchronous -> and the asynchronous ~> transition operator; a vector-payload family (spread patterns [x … y], [… y], [x …], [a b c] whose state is re-entered with every arrangement of the bound names, k and a constant); a two-payload family (:S(p, q) with every ordered selection of 1..2 (3 in the thorough tier, thinned) of six guarded branches that subtract, move or swap the fields, three outputs, on every pair of inputs 0..3 / 0..4, plus calls with one argument and with f64 arguments); ill-formed variants (undeclared target, declared state without an arm, f64 argument, undeclared start state); the run is compared state by state (name and payload, read from the interpreter's own step trace events) and in its result with a reference simulator; the transition limit is checked at max_steps in {{1,2,3,5,8}}. states = runs judged, transitions = runs executed (each run is one trace validated against the implementation)", n, tier.pick(5, 7));
    rep.assumptions = vec!["a configuration in which no guard holds, and payload underflow, are not judged beyond no panic/hang".into(), "the exact off-by-one of the transition limit is not judged (limit >= transitions+2 must succeed, limit < transitions must fail)".into()];
    if rep.out.sets.get("terminating_shapes").map(|s| s.len()).unwrap_or(0) < 20 { rep.vacuity.push("fewer than 20 machine shapes terminated with a compared trace".into()); }
  }
}

/// A machine invoked where its arguments are bound locally (function parameters, match-arm bindings, comprehension generators; every local
/// name shadowed by a global of another value): the call must return what the same call returns with global arguments.
fn context_unit(unit: u64, out: &mut WorkerOut) {
  use crate::ctx::{lv, Tpl};
  let arrow = if unit % 2 == 0 { "->" } else { "~>" };
  let euclid = unit / 2 == 0;
  let body = if euclid { format!("  :S(p, q)\n    ├ p > q {a} :S(p - q, q)\n    ├ q > p {a} :S(p, q - p)\n    └ * -> :D(p * 10u64 + q)\n", a = arrow) } else { format!("  :S(p, q)\n    ├ p > 0u64 {a} :S(p - 1u64, q + 2u64)\n    └ * -> :D(q)\n", a = arrow) };
  let def = format!("#T(a<u64>, b<u64>) => <u64>\n  ├ :S(p<u64>, q<u64>)\n  └ :D(r<u64>).\n\n#T(a<u64>, b<u64>) -> :S(a, b)\n{}  :D(r) => r.", body);
  let mut s = Session::new();
  if !s.run(&def).is_value() { out.count("context_setup_rejected"); return; }
  for d in ["a := 9u64", "b := 8u64", "p := 7u64", "q := 6u64"] { s.run(d); }
  let mut n = 0;
  for (av, bv) in [(3u64, 4u64), (6, 4), (5, 5), (1, 2)] {
    n += 1;
    let (ga, gb) = (format!("ga{}", n), format!("gb{}", n));
    s.run(&format!("{} := {}u64", ga, av)); s.run(&format!("{} := {}u64", gb, bv));
    let mk = |local: &str, top: String, two: bool, names: (&str, &str)| Tpl { local: local.to_string(), top, vars: if two { vec![lv(names.0, &ga, "u64"), lv(names.1, &gb, "u64")] } else { vec![lv(names.0, &ga, "u64")] }, scalar_operands: true, set_ok: true, tag: format!("{}:{}:{}", local, if euclid { "euclid" } else { "move" }, arrow), fn_ok: true };
    let tpls = vec![
      mk("#T(a, b)", format!("#T({}, {})", ga, gb), true, ("a", "b")), mk("#T(b, a)", format!("#T({}, {})", gb, ga), true, ("a", "b")),
      mk("#T(a + 1u64, b)", format!("#T({} + 1u64, {})", ga, gb), true, ("a", "b")), mk("#T(a, a)", format!("#T({}, {})", ga, ga), false, ("a", "")),
      // local names that are also the machine's own state-pattern names
      mk("#T(p, q)", format!("#T({}, {})", ga, gb), true, ("p", "q")), mk("#T(q, p) + #T(p, q)", format!("#T({}, {}) + #T({}, {})", gb, ga, ga, gb), true, ("p", "q")),
    ];
    crate::ctx::judge_templates("C17", &mut s, &tpls, n * 100, &format!("{} ;; a := 9u64; b := 8u64; p := 7u64; q := 6u64 (globals); {} := {}u64; {} := {}u64", def.replace('\n', " ⏎ "), ga, av, gb, bv), out);
  }
}
