//! C01 — elementwise operators: every shape, kind and broadcast form.
//! unit = (kind, lhs shape, rhs shape, value assignment); all operators are evaluated inside a unit.
use super::*;
use crate::canon::Canon;
use crate::pool::*;
use crate::refnum::*;
use crate::report::Report;
use crate::subject::*;
use serde_json::json;
use std::collections::HashMap;

pub const BINOPS: [&str; 15] = ["+", "-", "*", "/", "%", "^", "==", "!=", "<", "<=", ">", ">=", "&&", "||", "⊕"];
pub const UNOPS: [&str; 2] = ["-", "!"];

/// (rows, cols); (0,0) = scalar
pub fn shapes(tier: Tier) -> Vec<(usize, usize)> {
  let mut v = vec![(0, 0), (1, 1), (1, 2), (1, 3), (2, 1), (3, 1), (2, 2), (2, 3), (3, 2)];
  if tier == Tier::Thorough { v.extend([(1, 4), (4, 1), (3, 3), (4, 4), (1, 5), (5, 1), (4, 3)]); }
  v
}

pub fn n_assign(tier: Tier) -> usize { tier.pick(3, 6) }
/// assignments that only exist for the float kinds (NaN and infinities, spelled through helper variables)
pub fn special_assign(tier: Tier, assign: usize) -> bool { assign >= tier.pick(2, 4) }

/// value pools: (lhs pool, rhs pool) per assignment, as source spellings
pub fn pools(kind: &str, assign: usize) -> (Vec<String>, Vec<String>) {
  let s = |v: &[&str]| v.iter().map(|x| x.to_string()).collect::<Vec<_>>();
  if is_unsigned(kind) {
    let max = kind_max(kind);
    let m1 = Wide { neg: false, mag: max.mag - 1 };
    return match assign {
      0 => (s(&["7", "6", "9", "8", "12", "10"]), s(&["3", "5", "2", "6", "1", "4"])),
      1 => (s(&["2", "3", "2", "1", "3", "2"]), s(&["3", "2", "1", "5", "0", "2"])),
      2 => (vec![max.text(), "0".into(), m1.text(), "1".into(), max.text(), "0".into()], vec!["1".into(), "0".into(), "1".into(), max.text(), "0".into(), max.text()]),
      _ => (s(&["4", "9", "6", "8", "15", "20"]), s(&["2", "3", "3", "4", "5", "4"])),
    };
  }
  if is_signed_int(kind) {
    let (min, max) = (kind_min(kind), kind_max(kind));
    return match assign {
      0 => (s(&["7", "-6", "9", "-8", "12", "-10"]), s(&["3", "5", "-2", "-6", "1", "4"])),
      1 => (s(&["2", "-3", "2", "-1", "3", "-2"]), s(&["3", "2", "1", "5", "0", "-2"])),
      2 => (vec![max.text(), "0".into(), min.text(), "1".into(), max.text(), "-1".into()], vec!["1".into(), "0".into(), "-1".into(), max.text(), "0".into(), min.text()]),
      _ => (s(&["4", "-9", "6", "-8", "15", "20"]), s(&["2", "3", "-3", "-4", "5", "4"])),
    };
  }
  if is_float(kind) && assign >= 100 {
    // NaN and the infinities next to ordinary values, on both sides and against each other (helper variables nan / inf / ninf)
    return match assign {
      100 => (s(&["nan", "1.0", "inf", "2.0", "ninf", "0.0"]), s(&["2.0", "nan", "1.0", "inf", "3.0", "nan"])),
      _ => (s(&["nan", "inf", "ninf", "inf", "0.0", "-1.0"]), s(&["nan", "inf", "inf", "ninf", "inf", "ninf"])),
    };
  }
  if is_float(kind) {
    return match assign {
      0 => (s(&["7.5", "-6.0", "9.25", "-8.0", "12.0", "-10.5"]), s(&["3.0", "5.5", "-2.0", "-6.25", "1.0", "4.0"])),
      1 => (s(&["2.0", "-3.0", "2.0", "-1.0", "3.0", "-2.0"]), s(&["3.0", "2.0", "1.0", "5.0", "0.0", "-2.0"])),
      2 => (s(&["0.0", "-0.0", "100000000000000000000.0", "0.5", "1.0", "-1.0"]), s(&["-0.0", "0.0", "0.1", "0.0", "3.0", "0.3"])),
      _ => (s(&["0.1", "0.2", "0.3", "1.1", "2.2", "3.3"]), s(&["0.2", "0.1", "0.7", "1.3", "0.1", "0.9"])),
    };
  }
  match kind {
    "r64" => match assign {
      0 => (s(&["1/2", "2/3", "3/4", "5/2", "7/3", "1/5"]), s(&["1/3", "1/2", "1/4", "2/5", "7/6", "3/5"])),
      1 => (s(&["1/2", "-1/3", "2/1", "1/2", "-3/4", "2/3"]), s(&["1/2", "1/3", "-1/2", "4/8", "5/1", "2/3"])),
      2 => (s(&["9/7", "-5/3", "1/9", "8/3", "-1/1", "3/1"]), s(&["7/9", "5/3", "-1/9", "3/8", "1/1", "-3/1"])),
      _ => (s(&["1/6", "5/6", "7/2", "1/1", "0/1", "2/7"]), s(&["5/6", "1/6", "2/7", "3/1", "1/2", "7/2"])),
    },
    "c64" => match assign {
      0 => (s(&["1+2i", "3-1i", "2+2i", "0+1i", "4+0i", "1-1i"]), s(&["1+1i", "2+0i", "1-1i", "2+2i", "0+1i", "3+1i"])),
      1 => (s(&["1+1i", "2+0i", "1-1i", "2+2i", "0+1i", "3+1i"]), s(&["1+1i", "0+2i", "1-1i", "1+2i", "0+1i", "1+3i"])),
      2 => (s(&["5+5i", "1+0i", "0+3i", "2-2i", "6+1i", "1+7i"]), s(&["1+2i", "1+0i", "0+3i", "2+2i", "1+1i", "2-1i"])),
      _ => (s(&["2+3i", "4+5i", "6+7i", "8+9i", "1+0i", "0+1i"]), s(&["3+2i", "5+4i", "7+6i", "9+8i", "0+1i", "1+0i"])),
    },
    "bool" => match assign % 2 {
      0 => (s(&["true", "false", "true", "false", "false", "true"]), s(&["true", "true", "false", "false", "true", "false"])),
      _ => (s(&["false", "false", "true", "true", "false", "true"]), s(&["false", "true", "true", "false", "false", "false"])),
    },
    _ => match assign % 2 {
      0 => (s(&["\"x\"", "\"y\"", "\"z\"", "\"x\"", "\"y\"", "\"z\""]), s(&["\"x\"", "\"z\"", "\"z\"", "\"y\"", "\"y\"", "\"x\""])),
      _ => (s(&["\"a\"", "\"b\"", "\"\"", "\"ab\"", "\"b\"", "\"c\""]), s(&["\"b\"", "\"b\"", "\"\"", "\"a\"", "\"ab\"", "\"c\""])),
    },
  }
}

/// canonical text of a spelled value (what `canon` will print for it)
pub fn canon_text(kind: &str, spelled: &str) -> String {
  if is_int(kind) { return Wide::parse(spelled).map(|w| w.text()).unwrap_or_default(); }
  match kind {
    "f64" => crate::canon::f64_text(if spelled == "ninf" { f64::NEG_INFINITY } else { spelled.parse().unwrap() }),
    "f32" => crate::canon::f32_text(if spelled == "ninf" { f32::NEG_INFINITY } else { spelled.parse().unwrap() }),
    "r64" => Frac::parse(spelled).map(|f| f.text()).unwrap_or_default(),
    "c64" => {
      // a+bi / a-bi
      let t = spelled.trim_end_matches('i');
      let pos = t[1..].find(|c| c == '+' || c == '-').map(|p| p + 1).unwrap();
      let re: f64 = t[..pos].parse().unwrap();
      let im: f64 = t[pos..].parse().unwrap();
      format!("{},{}", crate::canon::f64_text(re), crate::canon::f64_text(im))
    }
    "string" => spelled.trim_matches('"').to_string(),
    _ => spelled.to_string(),
  }
}

pub fn elem_canon(kind: &str, spelled: &str) -> Canon {
  match kind {
    "bool" => Canon::Bool(spelled == "true"),
    "string" => Canon::Str(canon_text(kind, spelled)),
    _ => Canon::Num(kind.to_string(), canon_text(kind, spelled)),
  }
}

/// helper variables holding NaN and the infinities of a float kind (they cannot be spelled as literals)
pub fn special_defs(kind: &str) -> Vec<String> {
  vec!["zero := 0.0".to_string(), "one := 1.0".to_string(), "nan := zero / zero".into(), "inf := one / zero".into(), "ninf := (-one) / zero".into()]
}

pub fn define_scalar(name: &str, kind: &str, v: &str) -> String {
  match kind {
    "r64" | "c64" | "bool" | "string" => format!("{} := {}", name, v),
    _ => format!("{}<{}> := {}", name, kind, v),
  }
}

pub fn matrix_literal(vals: &[String], r: usize, c: usize) -> String {
  let mut s = String::from("[");
  for i in 0..r {
    if i > 0 { s.push_str("; "); }
    for j in 0..c {
      if j > 0 { s.push(' '); }
      s.push_str(&vals[i * c + j]);
    }
  }
  s.push(']');
  s
}

pub fn define_matrix(name: &str, kind: &str, vals: &[String], r: usize, c: usize) -> String {
  let lit = matrix_literal(vals, r, c);
  match kind {
    "c64" | "bool" | "string" => format!("{} := {}", name, lit),
    _ => format!("{}<[{}]> := {}", name, kind, lit),
  }
}

pub fn fill(pool: &[String], r: usize, c: usize) -> Vec<String> {
  let (r, c) = if r == 0 { (1, 1) } else { (r, c) };
  (0..r * c).map(|i| pool[i % pool.len()].clone()).collect()
}

pub fn ops_for(kind: &str) -> Vec<&'static str> {
  match kind {
    "bool" => vec!["&&", "||", "⊕", "==", "!="],
    "string" => vec!["==", "!="],
    _ => vec!["+", "-", "*", "/", "%", "^", "==", "!=", "<", "<=", ">", ">="],
  }
}

/// broadcast rule of the statement. None = not judged (1x1 mixed with another shape)
pub fn result_shape(l: (usize, usize), r: (usize, usize)) -> Option<Result<(usize, usize), ()>> {
  if l == r { return Some(Ok(l)); }
  if l == (0, 0) { return Some(Ok(r)); }
  if r == (0, 0) { return Some(Ok(l)); }
  if l == (1, 1) || r == (1, 1) { return None; }
  // matrix with matching row / column vector
  let bc = |m: (usize, usize), v: (usize, usize)| (v.0 == 1 && v.1 == m.1 && m.0 > 1) || (v.1 == 1 && v.0 == m.0 && m.1 > 1);
  if bc(l, r) { return Some(Ok(l)); }
  if bc(r, l) { return Some(Ok(r)); }
  Some(Err(()))
}


/// kinds whose values can be spelled as literals inside an expression without leaving the kind (suffix or native spelling)
fn literal_operand(kind: &str, vals: &[String], shape: (usize, usize)) -> Option<String> {
  let el = |v: &String| -> Option<String> { match kind {
    "f64" | "bool" | "string" | "c64" => Some(v.clone()),
    "u8" | "u16" | "u32" => if v.starts_with('-') { None } else { Some(format!("{}{}", v, kind)) },
    _ => None,
  } };
  if shape == (0, 0) { return el(&vals[0]).map(|x| if x.starts_with('-') { format!("({})", x) } else { x }); }
  let es: Option<Vec<String>> = vals.iter().map(el).collect();
  es.map(|es| matrix_literal(&es, shape.0, shape.1))
}

fn pick(vals: &[String], shape: (usize, usize), out: (usize, usize), i: usize, j: usize) -> String {
  if shape == (0, 0) { return vals[0].clone(); }
  let (r, c) = shape;
  let ii = if r == 1 && out.0 > 1 { 0 } else { i };
  let jj = if c == 1 && out.1 > 1 { 0 } else { j };
  vals[ii * c + jj].clone()
}

pub struct C01 {
  tier: Tier,
  /// (kind, op, lhs spelling, rhs spelling) -> the implementation's own scalar outcome
  scalar: HashMap<(String, String, String, String), Outcome>,
  scalar_un: HashMap<(String, String, String), Outcome>,
}

impl C01 {
  pub fn new(tier: Tier) -> C01 { C01 { tier, scalar: HashMap::new(), scalar_un: HashMap::new() } }

  fn dims(&self) -> (u64, u64, u64, u64) {
    (ALL_KINDS.len() as u64, shapes(self.tier).len() as u64, shapes(self.tier).len() as u64, n_assign(self.tier) as u64)
  }

  /// the implementation's S·S result for every operator on one pair (one fresh session per pair)
  fn scalar_pair(&mut self, kind: &str, l: &str, r: &str, out: &mut WorkerOut) {
    if self.scalar.contains_key(&(kind.to_string(), ops_for(kind)[0].to_string(), l.to_string(), r.to_string())) { return; }
    let mut s = Session::new();
    if [l, r].iter().any(|x| ["nan", "inf", "ninf"].contains(x)) { for d in special_defs(kind) { s.run(&d); } }
    let da = s.run(&define_scalar("a", kind, l));
    let db = s.run(&define_scalar("b", kind, r));
    for (n, op) in ops_for(kind).iter().enumerate() {
      let o = if da.is_value() && db.is_value() { s.run(&format!("r{} := a {} b", n, op)) } else { Outcome::Error("operand-define-failed".into()) };
      // judge the scalar against the reference (once per distinct pair; counted through a set so that the
      // totals do not depend on which worker happened to see the pair first)
      // the reference is computed from the operands as the session holds them: an annotated 64/128-bit literal
      // reaches its variable already rounded through f64 (that is C13's subject, not this property's)
      let held = |name: &str, spelled: &str| match s.get(name) { Some(Canon::Num(_, t)) => t, _ => canon_text(kind, spelled) };
      let (hl, hr) = (held("a", l), held("b", r));
      if hl != canon_text(kind, l) || hr != canon_text(kind, r) { out.count("operands_changed_by_their_literal(C13)"); }
      let ans = ref_binop(op, kind, &hl, &hr);
      let case = format!("{}; {}; r := a {} b", define_scalar("a", kind, l), define_scalar("b", kind, r), op);
      match (&ans, &o) {
        (RefAns::Unjudged, _) => { out.set("scalar_unjudged", &case); }
        (_, Outcome::Value(c)) => {
          out.set("scalar_judged", &case);
          if !satisfies(&ans, c) { out.fail(format!("C01|scalar-arith|{}:{}", op, kind), case, format!("reference {:?}, observed {}", ans, c.short())); }
        }
        (_, Outcome::Error(e)) => {
          // an operator the kind does not support at all is outside the statement ("whenever an operator accepts its operands")
          out.set("scalar_rejected_ops", &format!("{} {} ({})", kind, op, e));
        }
        (_, o) => { out.fail(format!("C01|scalar-panic|{}:{}", op, kind), case, format!("observed {}", o.short())); }
      }
      self.scalar.insert((kind.to_string(), op.to_string(), l.to_string(), r.to_string()), o);
    }
  }

  fn scalar_unary(&mut self, kind: &str, x: &str, out: &mut WorkerOut) {
    if self.scalar_un.contains_key(&(kind.to_string(), "-".to_string(), x.to_string())) { return; }
    let mut s = Session::new();
    if ["nan", "inf", "ninf"].contains(&x) { for d in special_defs(kind) { s.run(&d); } }
    let da = s.run(&define_scalar("a", kind, x));
    for (n, op) in UNOPS.iter().enumerate() {
      let o = if da.is_value() { s.run(&format!("r{} := {}a", n, op)) } else { Outcome::Error("operand-define-failed".into()) };
      let hx = match s.get("a") { Some(Canon::Num(_, t)) => t, _ => canon_text(kind, x) };
      let ans = ref_unop(op, kind, &hx);
      let case = format!("{}; r := {}a", define_scalar("a", kind, x), op);
      match (&ans, &o) {
        (RefAns::Unjudged, _) => {}
        (_, Outcome::Value(c)) => { out.set("scalar_judged", &case); if !satisfies(&ans, c) { out.fail(format!("C01|scalar-arith|unary{}:{}", op, kind), case, format!("reference {:?}, observed {}", ans, c.short())); } }
        (_, Outcome::Error(_)) => {}
        (_, o) => { out.fail(format!("C01|scalar-panic|unary{}:{}", op, kind), case, format!("observed {}", o.short())); }
      }
      self.scalar_un.insert((kind.to_string(), op.to_string(), x.to_string()), o);
    }
  }
}

fn arm_of(names: &[String]) -> String {
  let v: Vec<&String> = names.iter().filter(|n| !n.starts_with("VariableDefine")).collect();
  if v.is_empty() { "none".to_string() } else { v.iter().map(|s| s.split('<').next().unwrap_or("").to_string()).collect::<Vec<_>>().join("+") }
}

impl C01 {
  /// Every operator with its operands bound locally (function parameters, match-arm bindings, comprehension generators), every local name
  /// shadowed by a global of another value; scalar operands in every context, matrix operands as function parameters and match bindings.
  fn context_unit(&mut self, unit: u64, out: &mut WorkerOut) {
    let kinds = ["f64", "u8", "i64", "f32", "bool", "string", "r64", "i8", "u64"];
    if unit as usize >= kinds.len() * 2 { return; }
    let kind = kinds[(unit / 2) as usize];
    let matrix = unit % 2 == 1;
    let scalar_vals: Vec<(&str, &str)> = match kind { "bool" => vec![("true", "false"), ("false", "false")], "string" => vec![("\"p\"", "\"q\""), ("\"p\"", "\"p\"")], "r64" => vec![("7/2", "3/4"), ("1/2", "1/2")], _ => vec![("7", "2"), ("3", "3"), ("2", "5")] };
    let shadow = match kind { "bool" => ("true", "true"), "string" => ("\"z\"", "\"y\""), "r64" => ("9/1", "5/1"), _ => ("9", "4") };
    let def = |name: &str, v: &str| match kind { "bool" | "string" | "r64" => format!("{} := {}", name, v), _ => format!("{}<{}> := {}", name, kind, v) };
    let mut s = Session::new();
    for d in [def("a", shadow.0), def("b", shadow.1)] { if !s.run(&d).is_value() { out.count("context_setup_rejected"); return; } }
    let mut n = 0usize;
    for (av, bv) in scalar_vals {
      n += 1;
      let (ga, gb) = (format!("ga{}", n), format!("gb{}", n));
      let (da, db) = if matrix {
        let elems = |v: &str, w: &str| vec![v.to_string(), w.to_string(), v.to_string(), w.to_string()];
        (define_matrix(&ga, kind, &elems(av, bv), 2, 2), define_matrix(&gb, kind, &elems(bv, bv), 2, 2))
      } else { (def(&ga, av), def(&gb, bv)) };
      if !s.run(&da).is_value() || !s.run(&db).is_value() { out.count("context_setup_rejected"); continue; }
      let pk = if matrix { format!("[{}]", kind) } else { kind.to_string() };
      let mut exprs: Vec<(String, String, bool)> = ops_for(kind).iter().map(|op| (format!("a {} b", op), format!("{} {} {}", ga, op, gb), true)).collect();
      if kind == "bool" { exprs.push(("!a".into(), format!("!{}", ga), false)); exprs.push(("!(a && b)".into(), format!("!({} && {})", ga, gb), true)); }
      else if kind != "string" && !is_unsigned(kind) { exprs.push(("-a".into(), format!("-{}", ga), false)); exprs.push(("-(a - b)".into(), format!("-({} - {})", ga, gb), true)); }
      if kind != "string" && kind != "bool" { exprs.push(("(a + b) * a".into(), format!("({} + {}) * {}", ga, gb, ga), true)); exprs.push(("a * b + b".into(), format!("{} * {} + {}", ga, gb, gb), true)); }
      for (ei, (local, top, two)) in exprs.iter().enumerate() {
        out.evaluations += 1;
        let uniq = n * 100 + ei;
        let base = s.run(&format!("lcb{} := {}", uniq, top));
        let Outcome::Value(bc) = &base else { out.count("context_base_rejected"); continue; };
        let rk = match bc { Canon::Matrix(k, ..) => format!("[{}]", k), other => other.kind_name() };
        let mut vars = vec![crate::ctx::lv("a", &ga, &pk)];
        if *two { vars.push(crate::ctx::lv("b", &gb, &pk)); }
        let res = crate::ctx::eval_in_contexts(&mut s, uniq, &vars, local, &rk, top, !matrix, !matrix);
        for (ctx, text, o) in res {
          out.evaluations += 1;
          let case = format!("{}; {} (globals a, b); {}; {}; {}   versus r := {}", def("a", shadow.0), def("b", shadow.1), da, db, text, top);
          match crate::ctx::differs(&base, ctx, &o) {
            None => { out.nontrivial += 1; out.count(&format!("context_agrees:{}", ctx)); }
            Some(d) => out.fail(format!("C01|local-context-differs|{}:{}:{}{}", ctx, local, kind, if matrix { ":matrix" } else { "" }), case, d),
          }
        }
      }
    }
  }
}

impl UnitRunner for C01 {
  fn unit(&mut self, _payload: &str, unit: u64, out: &mut WorkerOut) {
    if _payload == "contexts" { return self.context_unit(unit, out); }
    let (nk, nl, nr, na) = self.dims();
    let mut u = unit;
    let assign = (u % na) as usize; u /= na;
    let ri = (u % nr) as usize; u /= nr;
    let li = (u % nl) as usize; u /= nl;
    let kind = ALL_KINDS[(u % nk) as usize];
    let shp = shapes(self.tier);
    let (ls, rs) = (shp[li], shp[ri]);
    let special = special_assign(self.tier, assign);
    if special && !is_float(kind) { return; }
    let (lp, rp) = pools(kind, if special { 100 + assign - self.tier.pick(2, 4) } else { assign });
    let lv = fill(&lp, ls.0, ls.1);
    // rotate the rhs pool by one when shapes have different element counts so pairs keep differing
    let rv = fill(&rp, rs.0, rs.1);
    let mut s = Session::new();
    if special { for d in special_defs(kind) { s.run(&d); } }
    let da = if ls == (0, 0) { define_scalar("a", kind, &lv[0]) } else { define_matrix("a", kind, &lv, ls.0, ls.1) };
    let db = if rs == (0, 0) { define_scalar("b", kind, &rv[0]) } else { define_matrix("b", kind, &rv, rs.0, rs.1) };
    let oa = s.run(&da);
    let ob = s.run(&db);
    // the same operands once more as mutable variables (a mutable variable evaluates to a reference to its cell)
    let dma = format!("~{}", if ls == (0, 0) { define_scalar("ma", kind, &lv[0]) } else { define_matrix("ma", kind, &lv, ls.0, ls.1) });
    let dmb = format!("~{}", if rs == (0, 0) { define_scalar("mb", kind, &rv[0]) } else { define_matrix("mb", kind, &rv, rs.0, rs.1) });
    let mutable_ok = s.run(&dma).is_value() && s.run(&dmb).is_value();
    let (ca, cb) = match (oa.value(), ob.value()) {
      (Some(a), Some(b)) => (a.clone(), b.clone()),
      _ => {
        out.evaluations += 1;
        out.fail(format!("C01|operand-define-rejected|{}", kind), format!("{}; {}", da, db), format!("{} / {}", oa.short(), ob.short()));
        return;
      }
    };
    let shape_rule = result_shape(ls, rs);
    let outshape = match shape_rule { Some(Ok(sh)) => Some(sh), _ => None };
    // binary operators
    for (n, op) in ops_for(kind).iter().enumerate() {
      out.evaluations += 1;
      let stmt = format!("r{} := a {} b", n, op);
      let before = s.plan_step_names().len();
      let o = s.run(&stmt);
      let names = s.plan_step_names();
      let arm = if o.is_value() && names.len() >= before { arm_of(&names[before..]) } else { "none".into() };
      if o.is_value() { out.set("arms", &arm); }
      let case = format!("{}; {}; r := a {} b", da, db, op);
      let locus = |arm: &str| if arm == "none" { format!("{}:{}x{}.{}x{}", op, ls.0, ls.1, rs.0, rs.1) } else { arm.to_string() };
      if let Outcome::Panic(m) = &o { out.fail(format!("C01|panic|{}", locus(&arm)), case.clone(), m.clone()); continue; }
      match shape_rule {
        None => { out.count("unjudged_1x1_mixed"); }
        Some(Err(())) => {
          out.nontrivial += 1;
          out.count("incompatible_pairs");
          if let Outcome::Value(c) = &o {
            out.fail(format!("C01|incompatible-accepted|{}", locus(&arm)), case.clone(), format!("shapes {}x{} and {}x{} must be rejected, got {}", ls.0, ls.1, rs.0, rs.1, c.short()));
          }
        }
        Some(Ok(sh)) => {
          // expected elements from the implementation's own scalar results
          let (er, ec) = if sh == (0, 0) { (1, 1) } else { sh };
          let mut exp: Vec<Outcome> = vec![];
          for i in 0..er { for j in 0..ec {
            let l = pick(&lv, ls, sh, i, j);
            let r = pick(&rv, rs, sh, i, j);
            self.scalar_pair(kind, &l, &r, out);
            exp.push(self.scalar[&(kind.to_string(), op.to_string(), l, r)].clone());
          } }
          let all_vals = exp.iter().all(|e| e.is_value());
          let any_rejected_kind = exp.iter().all(|e| !e.is_value());
          match &o {
            Outcome::Value(c) => {
              out.nontrivial += 1;
              // shape
              let got_shape = match c.as_matrix() { Some((r, cc, _)) => (r, cc), None => (0, 0) };
              if got_shape != sh {
                out.fail(format!("C01|wrong-shape|{}", locus(&arm)), case.clone(), format!("expected {}x{}, got {}", sh.0, sh.1, c.short()));
              } else {
                let got: Vec<Canon> = match c.as_matrix() { Some((_, _, e)) => e.clone(), None => vec![c.clone()] };
                let mut bad = None;
                for (k, e) in exp.iter().enumerate() {
                  if let Outcome::Value(ev) = e { if got.get(k) != Some(ev) { bad = Some((k, ev.clone())); break; } }
                }
                if let Some((k, ev)) = bad {
                  out.fail(format!("C01|wrong-element|{}", locus(&arm)), case.clone(), format!("element {} (row-major) should be the scalar result {}, got {}", k, ev.short(), c.short()));
                }
              }
            }
            Outcome::Error(e) => {
              if all_vals {
                out.nontrivial += 1;
                out.fail(format!("C01|compatible-rejected|{}", locus(&arm)), case.clone(), format!("every element pair is accepted as scalars, but this form gives Err({})", e));
              } else if any_rejected_kind { out.count("op_not_supported_for_kind"); } else { out.count("element_unrepresentable"); }
            }
            _ => {}
          }
        }
      }
      // operand spellings: the same operands parenthesised, written as literals, and mixed must give the identical outcome
      if !matches!(o, Outcome::Panic(_)) {
        let (la, lb) = (literal_operand(kind, &lv, ls), literal_operand(kind, &rv, rs));
        let mut spellings: Vec<(&str, String)> = vec![("parenthesised", format!("(a) {} (b)", op))];
        if let (Some(la), Some(lb)) = (&la, &lb) { spellings.push(("literals", format!("{} {} {}", la, op, lb))); }
        if let Some(lb) = &lb { spellings.push(("variable-literal", format!("a {} {}", op, lb))); }
        if let Some(la) = &la { spellings.push(("literal-variable", format!("{} {} b", la, op))); }
        if mutable_ok { spellings.push(("mutable-variables", format!("ma {} mb", op))); spellings.push(("mutable-variable", format!("ma {} b", op))); spellings.push(("variable-mutable", format!("a {} mb", op))); }
        for (k, (form, expr)) in spellings.iter().enumerate() {
          out.evaluations += 1;
          let of = s.run(&format!("f{}x{} := {}", n, k, expr));
          let same = match (&o, &of) { (Outcome::Value(x), Outcome::Value(y)) => x == y, (Outcome::Value(_), _) | (_, Outcome::Value(_)) => false, (_, Outcome::Panic(_)) => false, _ => true };
          if same { if of.is_value() { out.nontrivial += 1; } out.count(&format!("operand_form:{}", form)); }
          else { out.fail(format!("C01|operand-form-differs|{}:{}:{}", op, form, if ls == (0, 0) && rs == (0, 0) { "scalars" } else if ls == (0, 0) || rs == (0, 0) { "scalar-matrix" } else { "matrices" }), format!("{}; {}; {}r := {}", da, db, if form.contains("mutable") { format!("{}; {}; ", dma, dmb) } else { String::new() }, expr), format!("with variables {}, in this spelling {}", o.short(), of.short())); }
        }
      }
      // the same variable on both sides: every element against the scalar result of (x, x)
      if ri == li {
        out.evaluations += 1;
        let oa = s.run(&format!("sv{} := a {} a", n, op));
        let (er, ec) = if ls == (0, 0) { (1, 1) } else { ls };
        let mut exp: Vec<Outcome> = vec![];
        for i in 0..er { for j in 0..ec { let l = pick(&lv, ls, ls, i, j); self.scalar_pair(kind, &l, &l, out); exp.push(self.scalar[&(kind.to_string(), op.to_string(), l.clone(), l)].clone()); } }
        let case_a = format!("{}; r := a {} a", da, op);
        match &oa {
          Outcome::Value(c) => {
            out.nontrivial += 1;
            let got: Vec<Canon> = match c.as_matrix() { Some((_, _, e)) => e.clone(), None => vec![c.clone()] };
            for (k, e) in exp.iter().enumerate() { if let Outcome::Value(ev) = e { if got.get(k) != Some(ev) { out.fail(format!("C01|wrong-element|same-variable:{}", op), case_a.clone(), format!("element {} should be the scalar result {}, got {}", k, ev.short(), c.short())); break; } } }
          }
          Outcome::Error(e) => { if exp.iter().all(|x| x.is_value()) { out.fail(format!("C01|compatible-rejected|same-variable:{}", op), case_a, format!("every element pair is accepted as scalars, but a {} a gives Err({})", op, e)); } }
          Outcome::Panic(m) => out.fail(format!("C01|panic|same-variable:{}", op), case_a, m.clone()),
          _ => {}
        }
      }
      if unit % 97 == 0 && n == 0 { out.sample(json!({"program": case, "observed": o.short(), "arm": arm})); }
    }
    // unary operators (once per lhs shape: only when the rhs shape index is 0)
    if ri == 0 {
      for (n, op) in UNOPS.iter().enumerate() {
        if (*op == "!" && kind != "bool") || (*op == "-" && (kind == "bool" || kind == "string")) { continue; }
        out.evaluations += 1;
        let before = s.plan_step_names().len();
        let o = s.run(&format!("u{} := {}a", n, op));
        let names = s.plan_step_names();
        let arm = if o.is_value() && names.len() >= before { arm_of(&names[before..]) } else { format!("unary{}:{}x{}", op, ls.0, ls.1) };
        if o.is_value() { out.set("arms", &arm); }
        let case = format!("{}; r := {}a", da, op);
        let mut exp = vec![];
        for x in lv.iter() { self.scalar_unary(kind, x, out); exp.push(self.scalar_un[&(kind.to_string(), op.to_string(), x.clone())].clone()); }
        let all_vals = exp.iter().all(|e| e.is_value());
        match &o {
          Outcome::Value(c) => {
            out.nontrivial += 1;
            let got_shape = match c.as_matrix() { Some((r, cc, _)) => (r, cc), None => (0, 0) };
            let got: Vec<Canon> = match c.as_matrix() { Some((_, _, e)) => e.clone(), None => vec![c.clone()] };
            if got_shape != ls { out.fail(format!("C01|wrong-shape|{}", arm), case.clone(), format!("expected {}x{}, got {}", ls.0, ls.1, c.short())); }
            else {
              for (k, e) in exp.iter().enumerate() {
                if let Outcome::Value(ev) = e { if got.get(k) != Some(ev) { out.fail(format!("C01|wrong-element|{}", arm), case.clone(), format!("element {} should be {}, got {}", k, ev.short(), c.short())); break; } }
              }
            }
          }
          Outcome::Error(e) => { if all_vals { out.nontrivial += 1; out.fail(format!("C01|compatible-rejected|{}", arm), case.clone(), format!("scalar form accepted, this form gives Err({})", e)); } }
          Outcome::Panic(m) => out.fail(format!("C01|panic|{}", arm), case.clone(), m.clone()),
          _ => {}
        }
      }
    }
    // frame: operators never modify their operands
    if s.get("a").as_ref() != Some(&ca) || s.get("b").as_ref() != Some(&cb) {
      out.fail(format!("C01|operand-modified|{}", kind), format!("{}; {}; all operators", da, db), format!("a={:?} b={:?}", s.get("a").map(|c| c.short()), s.get("b").map(|c| c.short())));
    }
  }
}

impl Check for C01 {
  fn id(&self) -> &'static str { "C01" }
  fn level(&self) -> &'static str { "exploration" }
  fn drive(&mut self, tier: Tier, cfg: &PoolCfg, rep: &mut Report) {
    let (nk, nl, nr, na) = self.dims();
    let n = nk * nl * nr * na;
    rep.rule = format!("complete product kind({}) x lhs shape({}) x rhs shape({}) x value assignment({}) = {} units, every applicable operator of {:?}+unary{:?} per unit; \
      evaluations = operator applications (matrix forms + the distinct scalar pairs they reduce to); non-trivial = applications that produced a value judged against the scalar lifting / reference, \
      or an incompatible pair that must be rejected, or a compatible form rejected", nk, nl, nr, na, n, BINOPS, UNOPS);
    rep.assumptions = vec![
      "subject built at opt-level 1 with debug assertions and overflow checks (test-profile semantics)".into(),
      "1x1 matrices mixed with other shapes, mixed-kind operands and complex scalar arithmetic are not judged against a reference (only lifted differentially)".into(),
      "an operator a kind does not support at all (rejected on scalars) is outside the statement".into(),
      "operand spellings: every application is repeated with both operands parenthesised and, for kinds whose literals keep their kind inside an expression (f64, bool, string, c64, u8, u16, u32), with both / either operand written as a literal, and with both / either operand held in a mutable variable (~a); the outcome must be identical to the one with variables".into(),
    ];
    rep.cov("bounds", json!({"kinds": ALL_KINDS, "shapes": shapes(tier), "assignments": na, "units": n}));
    let mut jobs = range_jobs("", n, 8);
    jobs.extend(range_jobs("contexts", 18, 1));
    drive_ranges(cfg, rep, jobs);
    let sj = rep.out.sets.get("scalar_judged").map(|s| s.len()).unwrap_or(0) as u64;
    let su = rep.out.sets.get("scalar_unjudged").map(|s| s.len()).unwrap_or(0) as u64;
    rep.out.evaluations += sj + su;
    rep.out.nontrivial += sj;
    rep.cov("scalar_pairs_judged_against_reference", json!(sj));
    rep.cov("scalar_pairs_unjudged", json!(su));
    rep.out.sets.remove("scalar_judged");
    rep.out.sets.remove("scalar_unjudged");
    let arms = rep.out.sets.get("arms").map(|s| s.len()).unwrap_or(0);
    if arms < 40 { rep.vacuity.push(format!("only {} distinct operator arms were reached", arms)); }
    if rep.out.counters.get("incompatible_pairs").copied().unwrap_or(0) == 0 { rep.vacuity.push("no incompatible shape pair explored".into()); }
  }
}
