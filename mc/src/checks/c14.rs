//! C14 — sets hold distinct elements of one kind and obey set algebra.
//! unit = (universe, index of set A); inside: every set B of the universe x every operator, memberships, constructors.
use super::*;
use crate::canon::Canon;
use crate::pool::*;
use crate::report::Report;
use crate::subject::*;
use serde_json::json;
use std::collections::BTreeSet;

/// helper variables available in every session of this check: the signed zeros of f32 and c64 have no literal spelling
pub const PRELUDE: [&str; 8] = ["zf<f32> := 0.0", "nzf := -zf", "of<f32> := 1.0", "zc := 0+0i", "nzc := -zc", "oc := 1+1i", "mzc := 0-0i", "tf<f32> := 2.5"];
pub fn sess() -> Session { let mut s = Session::new(); for d in PRELUDE { s.run(d); } s }

pub struct Universe { pub name: &'static str, pub elems: Vec<&'static str>, /// equivalence class of each element (value equality)
  pub class: Vec<usize>, pub matrix_kind: Option<&'static str> }

pub fn universes(tier: Tier) -> Vec<Universe> {
  let mut v = vec![
    Universe { name: "f64", elems: vec!["1", "2", "3"], class: vec![0, 1, 2], matrix_kind: Some("f64") },
    Universe { name: "u8", elems: vec!["1u8", "2u8", "3u8"], class: vec![0, 1, 2], matrix_kind: Some("u8") },
    Universe { name: "i64", elems: vec!["0x1", "0x2", "0x3"], class: vec![0, 1, 2], matrix_kind: None },
    Universe { name: "r64", elems: vec!["1/2", "2/4", "1/3"], class: vec![0, 0, 1], matrix_kind: None },
    Universe { name: "string", elems: vec!["\"a\"", "\"b\"", "\"c\""], class: vec![0, 1, 2], matrix_kind: Some("string") },
    Universe { name: "bool", elems: vec!["true", "false", "true"], class: vec![0, 1, 0], matrix_kind: None },
    Universe { name: "tuple", elems: vec!["(1,2)", "(2,1)", "(1,2)"], class: vec![0, 1, 0], matrix_kind: None },
    Universe { name: "set", elems: vec!["{1,2}", "{2,1}", "{3}"], class: vec![0, 0, 1], matrix_kind: None },
    Universe { name: "signed-zero", elems: vec!["0.0", "-0.0", "1.0"], class: vec![0, 0, 1], matrix_kind: None },
    Universe { name: "signed-zero-f32", elems: vec!["zf", "nzf", "of"], class: vec![0, 0, 1], matrix_kind: None },
    Universe { name: "signed-zero-c64", elems: vec!["zc", "nzc", "oc"], class: vec![0, 0, 1], matrix_kind: None },
    Universe { name: "f32", elems: vec!["of", "tf", "zf"], class: vec![0, 1, 2], matrix_kind: None },
  ];
  if tier == Tier::Thorough {
    v[0] = Universe { name: "f64", elems: vec!["1", "2", "3", "4"], class: vec![0, 1, 2, 3], matrix_kind: Some("f64") };
    v[4] = Universe { name: "string", elems: vec!["\"a\"", "\"b\"", "\"c\"", "\"\""], class: vec![0, 1, 2, 3], matrix_kind: Some("string") };
    v[6] = Universe { name: "tuple", elems: vec!["(1,2)", "(2,1)", "(1,2)", "(1,\"x\")"], class: vec![0, 1, 0, 2], matrix_kind: None };
  }
  v
}

/// every sequence over the universe up to the length bound (all insertion orders, repeats included)
pub fn sequences(n: usize, maxlen: usize) -> Vec<Vec<usize>> {
  let mut out = vec![vec![]];
  let mut cur: Vec<Vec<usize>> = vec![vec![]];
  for _ in 0..maxlen {
    let mut next = vec![];
    for s in &cur { for e in 0..n { let mut t = s.clone(); t.push(e); next.push(t); } }
    out.extend(next.iter().cloned());
    cur = next;
  }
  out
}

pub fn literal(u: &Universe, seq: &[usize]) -> String { format!("{{{}}}", seq.iter().map(|i| u.elems[*i]).collect::<Vec<_>>().join(",")) }
pub fn classes(u: &Universe, seq: &[usize]) -> BTreeSet<usize> { seq.iter().map(|i| u.class[*i]).collect() }

/// mathematical identity of an observed element (value equality: 0.0 = -0.0, nested sets unordered)
pub fn math_key(c: &Canon) -> String {
  match c {
    Canon::Num(k, t) if (k == "f64" || k == "f32") && t == "-0.0" => format!("{}:0.0", k),
    Canon::Num(k, t) if k == "c64" => format!("c64:{}", t.replace("-0.0", "0.0")),
    Canon::Num(k, t) => format!("{}:{}", k, t),
    Canon::Set(_, e, _) => { let mut v: Vec<String> = e.iter().map(math_key).collect(); v.sort(); v.dedup(); format!("{{{}}}", v.join(",")) }
    Canon::Tuple(e) => format!("({})", e.iter().map(math_key).collect::<Vec<_>>().join(",")),
    other => other.short(),
  }
}

pub const OPS: [&str; 8] = ["∪", "∩", "∖", "Δ", "⊆", "⊇", "⊊", "⊋"];

pub struct C14 { tier: Tier, us: Vec<Universe>, keys: std::collections::HashMap<String, Option<String>> }
impl C14 {
  pub fn new(tier: Tier) -> C14 { C14 { tier, us: universes(tier), keys: Default::default() } }
  fn maxlen(&self) -> usize { self.tier.pick(3, 4) }
  /// math key of one universe element as the implementation evaluates it
  fn elem_key(&mut self, spelled: &str) -> Option<String> {
    if let Some(k) = self.keys.get(spelled) { return k.clone(); }
    let mut s = sess();
    let o = s.run(&format!("t := {}", spelled));
    let k = if o.is_value() { s.get("t").map(|c| math_key(&c)) } else { None };
    self.keys.insert(spelled.to_string(), k.clone());
    k
  }
}

/// invariants of any set value; returns its math keys
fn check_set(c: &Canon, locus: &str, case: &str, out: &mut WorkerOut) -> Option<BTreeSet<String>> {
  if let Canon::Set(kind, elems, declared) = c {
    let keys: Vec<String> = elems.iter().map(math_key).collect();
    let uniq: BTreeSet<String> = keys.iter().cloned().collect();
    if uniq.len() != keys.len() { out.fail(format!("C14|duplicate-elements|{}", locus), case.to_string(), format!("two equal elements in {}", c.short())); }
    if *declared != elems.len() { out.fail(format!("C14|wrong-size|{}", locus), case.to_string(), format!("declared size {} but {} elements: {}", declared, elems.len(), c.short())); }
    let kinds: BTreeSet<String> = elems.iter().map(|e| match e { Canon::Num(k, _) => k.clone(), o => o.kind_name() }).collect();
    if kinds.len() > 1 { out.fail(format!("C14|mixed-kinds|{}", locus), case.to_string(), format!("elements of kinds {:?} in a set declared {{{}}}: {}", kinds, kind, c.short())); }
    // the set's own element kind must be the kind of its elements (scalar element kinds are comparable by name)
    if kinds.len() == 1 { let k = kinds.iter().next().unwrap(); if ["f64", "u8", "i64", "r64", "string", "bool"].contains(&k.as_str()) && kind != k { out.fail(format!("C14|wrong-kind|{}", locus), case.to_string(), format!("set declared {{{}}} holds {} elements: {}", kind, k, c.short())); } }
    Some(uniq)
  } else { None }
}

impl UnitRunner for C14 {
  fn unit(&mut self, _payload: &str, unit: u64, out: &mut WorkerOut) {
    if _payload == "contexts" { return context_unit(unit, out); }
    let ui = (unit / 512) as usize;
    let ai = (unit % 512) as usize;
    if ui >= self.us.len() { return; }
    let nel = self.us[ui].elems.len();
    let seqs = sequences(nel, self.maxlen());
    if ai >= seqs.len() { return; }
    let uname = self.us[ui].name;
    // element keys as the implementation sees them, per class
    let mut class_key: Vec<Option<String>> = vec![None; nel];
    for i in 0..nel { let sp = self.us[ui].elems[i]; let k = self.elem_key(sp); let c = self.us[ui].class[i]; if class_key[c].is_none() { class_key[c] = k; } }
    let u = &self.us[ui];
    let want_keys = |cls: &BTreeSet<usize>| -> Option<BTreeSet<String>> { cls.iter().map(|c| class_key[*c].clone()).collect() };
    let a_seq = &seqs[ai];
    let a_lit = literal(u, a_seq);
    let a_cls = classes(u, a_seq);
    // ---- constructors of A: literal, matrix conversion, comprehension
    {
      let mut s = sess();
      out.evaluations += 1;
      let o = s.run(&format!("a := {}", a_lit));
      let case = format!("a := {}", a_lit);
      match &o {
        Outcome::Value(c) => {
          out.nontrivial += 1;
          if let (Some(got), Some(want)) = (check_set(c, &format!("literal:{}", uname), &case, out), want_keys(&a_cls)) {
            if got != want { out.fail(format!("C14|wrong-result|literal:{}", uname), case.clone(), format!("distinct elements {:?}, got {}", want, c.short())); }
          }
          out.evaluations += 1;
          let oz = s.run("z := set/size(a)");
          if let Outcome::Value(Canon::Num(_, t)) = &oz { out.nontrivial += 1; if t.parse::<usize>().ok() != Some(a_cls.len()) { out.fail(format!("C14|wrong-size|set/size:{}", uname), case.clone(), format!("set/size = {}, {} distinct elements", t, a_cls.len())); } }
          // identity comprehension
          out.evaluations += 1;
          let oc = s.run("c := {x | x <- a}");
          if let Outcome::Value(cc) = &oc { out.nontrivial += 1; if let (Some(got), Some(want)) = (check_set(cc, &format!("comprehension:{}", uname), &case, out), want_keys(&a_cls)) { if got != want && !a_cls.is_empty() { out.fail(format!("C14|wrong-result|comprehension:{}", uname), format!("{}; c := {{x | x <- a}}", case), format!("got {}", cc.short())); } } }
          // comprehension shapes with one or two generators and filters (two generators over the same set must collapse duplicates)
          {
            let mut shapes: Vec<(&str, String, Option<BTreeSet<String>>)> = vec![
              ("two-generators-same-set", "{x | x <- a, y <- a}".to_string(), want_keys(&a_cls)),
              ("filter-member", "{x | x <- a, x ∈ a}".to_string(), want_keys(&a_cls)),
            ];
            // `==` between tuples or between sets is not part of this property: the equality filter is used on scalar universes only
            if uname != "tuple" && uname != "set" { shapes.push(("filter-two-generators-equal", "{x | x <- a, y <- a, x == y}".to_string(), want_keys(&a_cls))); }
            if uname == "f64" {
              // class c of the f64 universe is the number c + 1
              let vals: Vec<f64> = a_cls.iter().map(|c| (*c + 1) as f64).collect();
              let k = |v: f64| format!("f64:{}", crate::canon::f64_text(v));
              let set_of = |it: Vec<f64>| -> Option<BTreeSet<String>> { Some(it.into_iter().map(k).collect()) };
              shapes.push(("filter-greater", "{x | x <- a, x > 1}".to_string(), set_of(vals.iter().cloned().filter(|v| *v > 1.0).collect())));
              shapes.push(("map-many-to-one", "{x % 2 | x <- a}".to_string(), set_of(vals.iter().map(|v| v % 2.0).collect())));
              shapes.push(("map-constant", "{x * 0 | x <- a}".to_string(), set_of(vals.iter().map(|v| v * 0.0).collect())));
              shapes.push(("map-linear", "{x * 2 + 1 | x <- a}".to_string(), set_of(vals.iter().map(|v| v * 2.0 + 1.0).collect())));
              shapes.push(("two-generators-sum", "{x + y | x <- a, y <- {1, 2}}".to_string(), set_of(vals.iter().flat_map(|x| [1.0, 2.0].iter().map(move |y| x + y)).collect())));
              shapes.push(("two-generators-filter", "{x * 10 + y | x <- a, y <- a, x < y}".to_string(), set_of(vals.iter().flat_map(|x| vals.iter().filter(move |y| x < *y).map(move |y| x * 10.0 + y)).collect())));
              shapes.push(("two-generators-intersection", "{x | x <- a, y <- {2, 3}, x == y}".to_string(), set_of(vals.iter().cloned().filter(|v| *v == 2.0 || *v == 3.0).collect())));
              shapes.push(("two-filters", "{x | x <- a, x > 1, x < 4}".to_string(), set_of(vals.iter().cloned().filter(|v| *v > 1.0 && *v < 4.0).collect())));
              let pairs: BTreeSet<String> = vals.iter().flat_map(|x| [1.0f64, 2.0].iter().map(move |y| format!("({},{})", format!("f64:{}", crate::canon::f64_text(*x)), format!("f64:{}", crate::canon::f64_text(*y))))).collect();
              shapes.push(("two-generators-pairs", "{(x, y) | x <- a, y <- {1, 2}}".to_string(), Some(pairs)));
            }
            for (ci, (shape, text, want)) in shapes.iter().enumerate() {
              out.evaluations += 1;
              let oc = s.run(&format!("k{} := {}", ci, text));
              match (&oc, want) {
                (Outcome::Value(cc), Some(want)) => {
                  out.nontrivial += 1;
                  out.count(&format!("comprehension_shape:{}", shape));
                  if let Some(got) = check_set(cc, &format!("comprehension-{}:{}", shape, uname), &format!("{}; c := {}", case, text), out) {
                    // an empty result may be spelled as the empty value rather than an empty set
                    if &got != want { out.fail(format!("C14|wrong-result|comprehension-{}:{}", shape, uname), format!("{}; c := {}", case, text), format!("the comprehension denotes {:?}, got {}", want, cc.short())); }
                  } else if !want.is_empty() { out.fail(format!("C14|wrong-result|comprehension-{}:{}", shape, uname), format!("{}; c := {}", case, text), format!("the comprehension denotes {:?}, got {}", want, cc.short())); }
                }
                (Outcome::Panic(m), _) => out.fail(format!("C14|panic|comprehension-{}:{}", shape, uname), format!("{}; c := {}", case, text), m.clone()),
                _ => { out.count(&format!("comprehension_rejected:{}:{}", shape, uname)); }
              }
            }
          }
          // membership of every universe element
          for e in 0..nel {
            // every spelling of the two operands: element as literal / variable, set as variable / literal
            let has_var = s.run(&format!("e{} := {}", e, u.elems[e])).is_value();
            for (op, neg) in [("∈", false), ("∉", true)] {
              let mut spellings: Vec<(&str, String)> = vec![("literal-variable", format!("{} {} a", u.elems[e], op)), ("literal-literal", format!("{} {} {}", u.elems[e], op, a_lit))];
              if has_var { spellings.push(("variable-variable", format!("e{} {} a", e, op))); spellings.push(("variable-literal", format!("e{} {} {}", e, op, a_lit))); }
              for (si, (form, expr)) in spellings.iter().enumerate() {
                out.evaluations += 1;
                let om = s.run(&format!("m{}{}x{} := {}", e, if neg { "n" } else { "" }, si, expr));
                if let Outcome::Value(Canon::Bool(b)) = &om {
                  out.nontrivial += 1;
                  let isin = a_cls.contains(&u.class[e]);
                  if *b != (isin != neg) { out.fail(format!("C14|wrong-result|{}:{}{}", op, uname, if si == 0 { String::new() } else { format!(":{}", form) }), format!("{}; e{} := {}; r := {}", case, e, u.elems[e], expr), format!("got {}", b)); }
                } else if let Outcome::Panic(m) = &om { out.fail(format!("C14|panic|{}:{}", op, uname), format!("{}; {}", case, expr), m.clone()); }
              }
            }
          }
        }
        Outcome::Panic(m) => out.fail(format!("C14|panic|literal:{}", uname), case, m.clone()),
        _ => { out.count("literal_rejected"); out.set("rejected_literals", &a_lit); }
      }
      // ---- the same literal with its elements given by variables (immutable, mutable, or variables mixed with literals): it denotes the
      // same set - same distinct elements, same memberships, and it combines with the all-literal spelling like an equal set
      if !a_seq.is_empty() && a_seq.len() <= 3 {
        // spelling 4: elements that are themselves built from variables (tuples / nested sets with variable components, formulas over variables)
        let composed: Option<(&str, Vec<&str>)> = match uname { "tuple" => Some(("p1 := 1; p2 := 2", vec!["(p1,p2)", "(p2,p1)", "(p1,p2)", "(p1,\"x\")"])), "set" => Some(("p1 := 1; p2 := 2; p3 := 3", vec!["{p1,p2}", "{p2,p1}", "{p3}"])), "f64" => Some(("p1 := 1; p2 := 2", vec!["p1 * 1", "p1 + 1", "p1 + p2", "p2 * p2"])), _ => None };
        for (spi, spelling) in ["variables", "mutable-variables", "variable-then-literals", "literals-then-variable", "elements-composed-of-variables"].iter().enumerate() {
          if a_seq.len() == 1 && (spi == 2 || spi == 3) { continue; }
          if spi == 4 && composed.is_none() { continue; }
          let mut s = sess();
          let mut ok = s.run(&format!("a := {}", a_lit)).is_value();
          let prelude: String = if spi == 4 { composed.as_ref().unwrap().0.to_string() } else { (0..nel).map(|i| format!("{}v{} := {}", if spi == 1 { "~" } else { "" }, i, u.elems[i])).collect::<Vec<_>>().join("; ") };
          for d in prelude.split("; ") { ok = ok && s.run(d).is_value(); }
          if !ok { out.count("element_variable_define_rejected"); continue; }
          let last = a_seq.len() - 1;
          let lit2 = format!("{{{}}}", a_seq.iter().enumerate().map(|(p, i)| { if spi == 4 { return composed.as_ref().unwrap().1[*i].to_string(); } let var = match spi { 0 | 1 => true, 2 => p == 0, _ => p == last }; if var { format!("v{}", i) } else { u.elems[*i].to_string() } }).collect::<Vec<_>>().join(","));
          let case = format!("{}; a2 := {}", prelude, lit2);
          let locus = format!("literal-of-{}:{}", spelling, uname);
          out.evaluations += 1;
          let o = s.run(&format!("a2 := {}", lit2));
          match &o {
            Outcome::Panic(m) => out.fail(format!("C14|panic|{}", locus), case.clone(), m.clone()),
            Outcome::Value(c) => {
              out.nontrivial += 1;
              if let (Some(got), Some(want)) = (check_set(c, &locus, &case, out), want_keys(&a_cls)) {
                if got != want { out.fail(format!("C14|wrong-result|{}", locus), case.clone(), format!("distinct elements {:?}, got {}", want, c.short())); }
              }
              out.evaluations += 1;
              if let Outcome::Value(Canon::Num(_, t)) = &s.run("z2 := set/size(a2)") { out.nontrivial += 1; if t.parse::<usize>().ok() != Some(a_cls.len()) { out.fail(format!("C14|wrong-size|set/size:{}", locus), case.clone(), format!("set/size = {}, {} distinct elements", t, a_cls.len())); } }
              for e in 0..nel {
                out.evaluations += 1;
                let om = s.run(&format!("m{} := {} ∈ a2", e, u.elems[e]));
                match &om {
                  Outcome::Value(Canon::Bool(b)) => { out.nontrivial += 1; if *b != a_cls.contains(&u.class[e]) { out.fail(format!("C14|wrong-result|∈:{}", locus), format!("{}; r := {} ∈ a2", case, u.elems[e]), format!("got {}", b)); } }
                  Outcome::Panic(m) => out.fail(format!("C14|panic|∈:{}", locus), format!("{}; r := {} ∈ a2", case, u.elems[e]), m.clone()),
                  _ => out.fail(format!("C14|operand-form-rejected|∈:{}", locus), format!("{}; r := {} ∈ a2", case, u.elems[e]), format!("membership in a set literal built from variables is rejected: {}", om.short())),
                }
              }
              // against the all-literal spelling of the same set
              for (n, (expr, want_cls, want_bool)) in [("a2 ∪ a", Some(a_cls.clone()), None), ("a ∩ a2", Some(a_cls.clone()), None), ("a2 ∖ a", Some(BTreeSet::new()), None), ("a2 ⊆ a", None, Some(true)), ("a ⊆ a2", None, Some(true)), ("a2 ⊊ a", None, Some(false))].iter().enumerate() {
                out.evaluations += 1;
                let oo = s.run(&format!("w{} := {}", n, expr));
                let c2 = format!("a := {}; {}; r := {}", a_lit, case, expr);
                match (&oo, want_cls, want_bool) {
                  (Outcome::Panic(m), _, _) => out.fail(format!("C14|panic|{}:{}", expr, locus), c2, m.clone()),
                  (Outcome::Value(cv), Some(wc), _) => { out.nontrivial += 1; if let (Some(got), Some(want)) = (check_set(cv, &format!("{}:{}", expr, locus), &c2, out), want_keys(wc)) { if got != want { out.fail(format!("C14|wrong-result|{}:{}", expr, locus), c2, format!("mathematical result has elements {:?}, got {}", want, cv.short())); } } else if !wc.is_empty() { out.fail(format!("C14|wrong-result|{}:{}", expr, locus), c2, format!("got {}", cv.short())); } }
                  (Outcome::Value(Canon::Bool(g)), None, Some(w)) => { out.nontrivial += 1; if g != w { out.fail(format!("C14|wrong-result|{}:{}", expr, locus), c2, format!("definition gives {}, got {}", w, g)); } }
                  (Outcome::Value(cv), None, _) => out.fail(format!("C14|wrong-result|{}:{}", expr, locus), c2, format!("relation must be a Boolean, got {}", cv.short())),
                  _ => { if s.run(&format!("wb{} := {}", n, expr.replace("a2", "a"))).is_value() { out.fail(format!("C14|operand-form-rejected|{}:{}", expr, locus), c2, format!("accepted for two all-literal sets, rejected here: {}", oo.short())); } else { out.count("operator_rejected_for_literals_too"); } }
                }
              }
            }
            _ => { if s.get("a").is_some() { out.fail(format!("C14|operand-form-rejected|{}", locus), case.clone(), format!("the all-literal spelling {} is accepted, this one is rejected: {}", a_lit, o.short())); } }
          }
        }
      }
      if let Some(mk) = u.matrix_kind {
        if !a_seq.is_empty() {
          out.evaluations += 1;
          let m = format!("[{}]", a_seq.iter().map(|i| u.elems[*i]).collect::<Vec<_>>().join(" "));
          let stmt = format!("s<{{{}}}> := {}", mk, m);
          let mut s2 = sess();
          let o2 = s2.run(&stmt);
          if let Outcome::Value(c) = &o2 { out.nontrivial += 1; if let (Some(got), Some(want)) = (check_set(c, &format!("matrix-conversion:{}", uname), &stmt, out), want_keys(&a_cls)) { if got != want { out.fail(format!("C14|wrong-result|matrix-conversion:{}", uname), stmt.clone(), format!("distinct elements {:?}, got {}", want, c.short())); } } }
        }
      }
    }
    // ---- binary operators with every B of the same universe
    for b_seq in seqs.iter() {
      let b_lit = literal(u, b_seq);
      let b_cls = classes(u, b_seq);
      let mut s = sess();
      if !s.run(&format!("a := {}", a_lit)).is_value() || !s.run(&format!("b := {}", b_lit)).is_value() { continue; }
      for (n, op) in OPS.iter().enumerate() {
        out.evaluations += 1;
        let o = s.run(&format!("r{} := a {} b", n, op));
        let case = format!("a := {}; b := {}; r := a {} b", a_lit, b_lit, op);
        let locus = format!("{}:{}", op, uname);
        match &o {
          Outcome::Panic(m) => out.fail(format!("C14|panic|{}", locus), case, m.clone()),
          Outcome::Value(c) => {
            out.nontrivial += 1;
            match *op {
              "∪" | "∩" | "∖" | "Δ" => {
                let want_cls: BTreeSet<usize> = match *op { "∪" => a_cls.union(&b_cls).cloned().collect(), "∩" => a_cls.intersection(&b_cls).cloned().collect(), "∖" => a_cls.difference(&b_cls).cloned().collect(), _ => a_cls.symmetric_difference(&b_cls).cloned().collect() };
                if let (Some(got), Some(want)) = (check_set(c, &locus, &case, out), want_keys(&want_cls)) {
                  if got != want { out.fail(format!("C14|wrong-result|{}", locus), case.clone(), format!("mathematical result has elements {:?}, got {}", want, c.short())); }
                }
                // the result is a set like any other: membership in it follows the definition
                for e in 0..nel {
                  out.evaluations += 1;
                  let om = s.run(&format!("q{}x{} := {} ∈ r{}", n, e, u.elems[e], n));
                  if let Outcome::Value(Canon::Bool(bv)) = &om { out.nontrivial += 1; if *bv != want_cls.contains(&u.class[e]) { out.fail(format!("C14|wrong-result|∈ after {}", locus), format!("{}; {} ∈ r", case, u.elems[e]), format!("got {}", bv)); } }
                }
              }
              _ => {
                let want = match *op { "⊆" => a_cls.is_subset(&b_cls), "⊇" => a_cls.is_superset(&b_cls), "⊊" => a_cls.is_subset(&b_cls) && a_cls != b_cls, _ => a_cls.is_superset(&b_cls) && a_cls != b_cls };
                if let Canon::Bool(g) = c { if *g != want { out.fail(format!("C14|wrong-result|{}", locus), case.clone(), format!("definition gives {}, got {}", want, g)); } }
                else { out.fail(format!("C14|wrong-result|{}", locus), case.clone(), format!("relation must be a Boolean, got {}", c.short())); }
              }
            }
          }
          _ => { out.count("operator_rejected"); out.set("rejected_operators", &format!("{} ({})", locus, o.short())); }
        }
      }
      // every other spelling of the operators (symbol synonyms and word forms) must give what the primary spelling gives
      for (n, op) in OPS.iter().enumerate() {
        let alts: Vec<String> = match *op { "∪" => vec!["set/union(a, b)".into()], "∩" => vec!["set/intersection(a, b)".into()], "∖" => vec!["set/difference(a, b)".into()], "Δ" => vec!["set/symmetric-difference(a, b)".into()],
          "⊆" => vec!["set/subset(a, b)".into()], "⊇" => vec!["set/superset(a, b)".into()], "⊊" => vec!["a ⊂ b".into()], _ => vec!["a ⊃ b".into(), "set/proper-superset(a, b)".into()] };
        let Some(base) = s.get(&format!("r{}", n)) else { continue; };
        for (ai, alt) in alts.iter().enumerate() {
          out.evaluations += 1;
          let o = s.run(&format!("y{}x{} := {}", n, ai, alt));
          let case = format!("a := {}; b := {}; r := {}   versus r := a {} b", a_lit, b_lit, alt, op);
          match (&o, s.get(&format!("y{}x{}", n, ai))) {
            (Outcome::Panic(m), _) => out.fail(format!("C14|panic|{}:{}", alt.split('(').next().unwrap_or(alt), uname), case, m.clone()),
            (Outcome::Value(_), Some(g)) => { out.nontrivial += 1; let same = match (&base, &g) { (Canon::Set(..), Canon::Set(..)) => math_key(&base) == math_key(&g), _ => base == g }; if !same { out.fail(format!("C14|spelling-differs|{}:{}", if alt.contains('(') { alt.split('(').next().unwrap_or(alt).to_string() } else { alt.replace("a ", "").replace(" b", "") }, uname), case, format!("{} gives {}, this spelling {}", op, base.short(), g.short())); } else { out.count("operator_spellings_agree"); } }
            _ => { out.count("operator_spelling_rejected"); out.set("rejected_operator_spellings", &format!("{} ({})", alt, uname)); }
          }
        }
      }
      // operand forms: literal/variable on either side take different dispatch arms
      if a_seq.len() <= 2 && b_seq.len() <= 2 {
        // mutable variables hold a reference to their cell: the operators must read through it
        let mutable_ok = s.run(&format!("~ma := {}", a_lit)).is_value() && s.run(&format!("~mb := {}", b_lit)).is_value();
        let mut forms: Vec<(&str, &str)> = vec![(a_lit.as_str(), "b"), ("a", b_lit.as_str()), (a_lit.as_str(), b_lit.as_str())];
        if mutable_ok { forms.push(("ma", "mb")); forms.push(("ma", "b")); forms.push(("a", "mb")); }
        for (fi, (l, r)) in forms.iter().enumerate() {
          for (n, op) in OPS.iter().enumerate() {
            out.evaluations += 1;
            let o = s.run(&format!("f{}x{} := {} {} {}", fi, n, l, op, r));
            let base = s.get(&format!("r{}", n));
            let got = s.get(&format!("f{}x{}", fi, n));
            let case = format!("a := {}; b := {}; r := {} {} {}", a_lit, b_lit, l, op, r);
            match (&o, base, got) {
              (Outcome::Panic(m), _, _) => out.fail(format!("C14|panic|{}:{}", op, uname), case, m.clone()),
              (Outcome::Value(_), Some(bc), Some(gc)) => {
                out.nontrivial += 1;
                let same = match (&bc, &gc) { (Canon::Set(..), Canon::Set(..)) => math_key(&bc) == math_key(&gc), _ => bc == gc };
                if !same { out.fail(format!("C14|operand-form-differs|{}:{}", op, uname), case, format!("with two variables: {} ; with this operand form: {}", bc.short(), gc.short())); }
              }
              (Outcome::Value(_), None, Some(gc)) => { out.count("form_accepted_where_variables_rejected"); let _ = gc; }
              (_, Some(bc), _) => { out.fail(format!("C14|operand-form-rejected|{}:{}", op, uname), case, format!("accepted with two variables ({}), rejected in this form: {}", bc.short(), o.short())); }
              _ => {}
            }
          }
        }
      }
      if ai % 7 == 0 && b_seq.len() == 2 && b_seq[0] == 0 { out.sample(json!({"a": a_lit, "b": b_lit, "union": s.get("r0").map(|c| c.short())})); }
    }
    // ---- operands of different element kinds: a result must still be a one-kind set
    if ai < 6 {
      for (vi, other) in self.us.iter().enumerate() {
        if vi == ui || other.name == "signed-zero" || uname == "signed-zero" { continue; }
        let b_lit = literal(other, &[0, 1]);
        let mut s = sess();
        if !s.run(&format!("a := {}", a_lit)).is_value() || !s.run(&format!("b := {}", b_lit)).is_value() { continue; }
        for (n, op) in ["∪", "∩", "∖", "Δ"].iter().enumerate() {
          out.evaluations += 1;
          let o = s.run(&format!("r{} := a {} b", n, op));
          let case = format!("a := {}; b := {}; r := a {} b", a_lit, b_lit, op);
          if let Outcome::Value(c) = &o { out.nontrivial += 1; check_set(c, &format!("{}:cross-kind", op), &case, out); }
          if let Outcome::Panic(m) = &o { out.fail(format!("C14|panic|{}:cross-kind", op), case, m.clone()); }
        }
      }
    }
  }
}

impl Check for C14 {
  fn id(&self) -> &'static str { "C14" }
  fn level(&self) -> &'static str { "exploration" }
  fn unit_budget(&self, _t: Tier) -> Duration { Duration::from_secs(120) }
  fn drive(&mut self, tier: Tier, cfg: &PoolCfg, rep: &mut Report) {
    let nu = self.us.len() as u64;
    rep.rule = format!("{} element universes (f64, u8, i64, r64 with equal fractions, strings, bools, tuples, nested sets written in different orders, signed zeros); every sequence of length <= {} over a universe written as a set literal (all insertion orders, repeats included), the same via matrix conversion, an identity comprehension and comprehension shapes with one or two generators and filters (two generators over one set, membership and equality filters for every universe; numeric filters, many-to-one, constant and linear maps, sums, pairs, joins over two generators for f64), set/size, membership of every universe element in every spelling (element as literal / variable, set as variable / literal), \
      and every ordered pair of such sets x 8 operators (union, intersection, difference, symmetric difference, subset, superset, strict subset, strict superset), plus cross-kind operand pairs; evaluations = statements evaluated; non-trivial = statements that produced a value judged against the mathematical definition", nu, self.maxlen());
    rep.assumptions = vec!["element identity is value equality: 0.0 = -0.0, 1/2 = 2/4, nested sets are unordered, tuples compare elementwise".into(), "iteration order and the element kind recorded for an empty set are not judged".into()];
    rep.cov("bounds", json!({"universes": self.us.iter().map(|u| u.name).collect::<Vec<_>>(), "max_sequence_length": self.maxlen()}));
    let us: Vec<(String, Vec<String>)> = self.us.iter().map(|u| (u.name.to_string(), u.elems.iter().map(|e| e.to_string()).collect())).collect();
    let ml = self.maxlen();
    rep.describe = Some(Box::new(move |_p, unit| { let ui = (unit / 512) as usize; let (n, e) = &us[ui.min(us.len() - 1)]; let seqs = sequences(e.len(), ml); let s = seqs.get((unit % 512) as usize).cloned().unwrap_or_default(); (format!("sets:{}", n), format!("a := {{{}}} with some b / operator", s.iter().map(|i| e[*i].clone()).collect::<Vec<_>>().join(","))) }));
    let mut jobs = range_jobs("", nu * 512, 1);
    jobs.extend(range_jobs("contexts", 8, 1));
    drive_ranges(cfg, rep, jobs);
    if rep.out.nontrivial < 1000 { rep.vacuity.push("too few judged statements".into()); }
  }
}

/// Set literals, memberships and set operators whose operands are bound locally (function parameters, match-arm bindings, comprehension
/// generators; every local shadowed by a global of another value).
fn context_unit(unit: u64, out: &mut WorkerOut) {
  use crate::ctx::{lv, Tpl};
  let kinds: [(&str, [&str; 4]); 4] = [("f64", ["1", "2", "3", "9"]), ("u8", ["1u8", "2u8", "3u8", "9u8"]), ("string", ["\"a\"", "\"b\"", "\"c\"", "\"z\""]), ("r64", ["1/2", "2/4", "1/3", "9/1"])];
  let (kind, e) = kinds[(unit % 4) as usize];
  let sets = unit / 4 == 1;
  let mut s = sess();
  // shadows
  for d in [format!("a := {}", e[3]), format!("b := {}", e[3]), format!("p := {{{}}}", e[3]), format!("q := {{{}}}", e[3])] { s.run(&d); }
  let defs = [format!("ga := {}", e[0]), format!("gb := {}", e[1]), format!("gp := {{{},{}}}", e[0], e[1]), format!("gq := {{{},{}}}", e[1], e[2])];
  for d in &defs { if !s.run(d).is_value() { out.count("context_setup_rejected"); return; } }
  let sk = format!("{{{}}}", kind);
  let forms: Vec<(&str, Vec<(&str, &str, String)>, bool)> = if sets {
    // set-valued operands: function parameters and match bindings only
    vec![("p ∪ q", vec![("p", "gp", sk.clone()), ("q", "gq", sk.clone())], false), ("p ∩ q", vec![("p", "gp", sk.clone()), ("q", "gq", sk.clone())], false), ("p ∖ q", vec![("p", "gp", sk.clone()), ("q", "gq", sk.clone())], false),
      ("p Δ q", vec![("p", "gp", sk.clone()), ("q", "gq", sk.clone())], false), ("p ⊆ q", vec![("p", "gp", sk.clone()), ("q", "gq", sk.clone())], false), ("p ⊊ q", vec![("p", "gp", sk.clone()), ("q", "gq", sk.clone())], false),
      ("q ⊇ p", vec![("p", "gp", sk.clone()), ("q", "gq", sk.clone())], false), ("set/size(p)", vec![("p", "gp", sk.clone())], false), ("{x | x <- p}", vec![("p", "gp", sk.clone())], false), ("{x | x <- p, x ∈ q}", vec![("p", "gp", sk.clone()), ("q", "gq", sk.clone())], false)]
  } else {
    vec![("{a, b}", vec![("a", "ga", kind.to_string()), ("b", "gb", kind.to_string())], true), ("{b, a, b}", vec![("a", "ga", kind.to_string()), ("b", "gb", kind.to_string())], true), ("{a}", vec![("a", "ga", kind.to_string())], true),
      ("a ∈ gp", vec![("a", "ga", kind.to_string())], true), ("a ∉ gq", vec![("a", "ga", kind.to_string())], true), ("b ∈ {a, b}", vec![("a", "ga", kind.to_string()), ("b", "gb", kind.to_string())], true),
      ("{a, b} ∪ gq", vec![("a", "ga", kind.to_string()), ("b", "gb", kind.to_string())], true), ("gp ∖ {a}", vec![("a", "ga", kind.to_string())], true), ("{x | x <- gp, x == a}", vec![("a", "ga", kind.to_string())], true)]
  };
  let tpls: Vec<Tpl> = forms.iter().map(|(f, vs, scalar)| {
    let mut top = f.to_string();
    // whole-token replacement of the local names by the globals that hold the operands
    for (l, g, _) in vs { let mut o = String::new(); let mut w = String::new(); for ch in top.chars().chain(std::iter::once(' ')) { if ch.is_alphanumeric() || ch == '/' { w.push(ch); } else { if w == *l { o.push_str(g); } else { o.push_str(&w); } w.clear(); o.push(ch); } } top = o.trim_end().to_string(); }
    Tpl { local: f.to_string(), top, vars: vs.iter().map(|(l, g, k)| lv(l, g, k)).collect(), scalar_operands: *scalar, set_ok: *scalar, tag: format!("{}:{}", f, kind), fn_ok: *scalar && !f.contains("gp") && !f.contains("gq") }
  }).collect();
  crate::ctx::judge_templates("C14", &mut s, &tpls, 0, &format!("a, b := {} ; p, q := {{{}}} (globals); {}", e[3], e[3], defs.join("; ")), out);
}
