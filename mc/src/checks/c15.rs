//! C15 — ranges are the arithmetic progressions they denote. unit = (kind, index of a); inside: every b, every step, 4 forms.
use super::*;
use crate::canon::{f32_text, f64_text, Canon};
use crate::pool::*;
use crate::refnum::*;
use crate::report::Report;
use crate::subject::*;
use serde_json::json;

pub const KINDS: [&str; 13] = ["u8", "u16", "u32", "u64", "u128", "i8", "i16", "i32", "i64", "i128", "f32", "f64", "r64"];

/// pool values as exact rationals (num, den) so that every term is exact; floats use dyadic values only
pub fn pool(kind: &str, tier: Tier) -> Vec<(i128, i128, String)> {
  let mut v: Vec<(i128, i128, String)> = vec![];
  let mut int = |x: i128, v: &mut Vec<(i128, i128, String)>| v.push((x, 1, x.to_string()));
  if is_int(kind) {
    let (mn, mx) = (kind_min(kind), kind_max(kind));
    let mx_i: Option<i128> = if mx.mag <= i128::MAX as u128 { Some(mx.mag as i128) } else { None };
    let small: Vec<i128> = tier.pick(vec![0, 1, 2, 3, 5], vec![0, 1, 2, 3, 4, 5, 7, 12]);
    for x in small { int(x, &mut v); }
    if !is_unsigned(kind) { for x in tier.pick(vec![-3, -1], vec![-5, -3, -2, -1]) { int(x, &mut v); } if bits(kind) < 128 { let m = -(mn.mag as i128); int(m, &mut v); int(m + 1, &mut v); } }
    if let Some(m) = mx_i { int(m, &mut v); int(m - 1, &mut v); int(m - 5, &mut v); }
    else { v.push((0, 0, mx.text())); }
  } else if is_float(kind) {
    for (n, d) in tier.pick(vec![(0, 1), (1, 1), (2, 1), (3, 1), (5, 1), (-3, 1), (-1, 1), (1, 2), (1, 4), (5, 2), (-1, 2)], vec![(0, 1), (1, 1), (2, 1), (3, 1), (4, 1), (5, 1), (7, 1), (12, 1), (-5, 1), (-3, 1), (-1, 1), (1, 2), (1, 4), (5, 2), (-1, 2), (3, 4), (1, 8)]) {
      let x = n as f64 / d as f64;
      v.push((n, d, format!("{:?}", x)));
    }
  } else {
    for (n, d) in [(0, 1), (1, 1), (2, 1), (3, 1), (1, 2), (5, 2), (-1, 2), (1, 3), (-3, 1)] { v.push((n, d, format!("{}/{}", n, d))); }
  }
  v
}

fn define(name: &str, kind: &str, spelled: &str) -> String {
  if kind == "r64" { format!("{} := {}", name, spelled) } else { format!("{}<{}> := {}", name, kind, spelled) }
}

fn term_text(kind: &str, n: i128, d: i128) -> String {
  if is_int(kind) { format!("{}", n / d) }
  else if kind == "f64" { f64_text(n as f64 / d as f64) }
  else if kind == "f32" { f32_text(n as f32 / d as f32) }
  else { Frac::new(n, d).map(|f| f.text()).unwrap_or_default() }
}

pub struct C15 { tier: Tier }
impl C15 { pub fn new(tier: Tier) -> C15 { C15 { tier } } }

pub enum Want { Terms(Vec<String>), ErrorOrEmpty(&'static str), DescendingOrError(Vec<String>), Skip }

/// exact reference: a + i*s as fractions
pub fn reference(a: (i128, i128), s: (i128, i128), b: (i128, i128), inclusive: bool, kind: &str) -> Want {
  // common denominator
  let den = a.1 * s.1 * b.1;
  let (an, sn, bn) = match (a.0.checked_mul(s.1 * b.1), s.0.checked_mul(a.1 * b.1), b.0.checked_mul(a.1 * s.1)) { (Some(x), Some(y), Some(z)) => (x, y, z), _ => return Want::Skip };
  if sn == 0 { return Want::ErrorOrEmpty("zero-step"); }
  let ascending = sn > 0;
  let in_order = if ascending { if inclusive { an <= bn } else { an < bn } } else { if inclusive { an >= bn } else { an > bn } };
  if !in_order {
    // a == b exclusive is the empty progression; anything else has its bounds in the wrong order for the step
    return Want::ErrorOrEmpty(if an == bn { "empty-exclusive" } else { "wrong-order" });
  }
  let mut terms = vec![];
  let mut t = an;
  loop {
    let ok = if ascending { if inclusive { t <= bn } else { t < bn } } else { if inclusive { t >= bn } else { t > bn } };
    if !ok { break; }
    terms.push(term_text(kind, t, den));
    if terms.len() > 64 { return Want::Skip; }
    t = match t.checked_add(sn) { Some(x) => x, None => break };
  }
  if ascending { Want::Terms(terms) } else { Want::DescendingOrError(terms) }
}

impl C15 {
  /// bounds that are not finite (NaN, +inf, -inf; built through helper variables) in every position of the four range forms, for both float
  /// kinds: such a range cannot be built, the result must be an error or the empty vector - and the evaluation must return
  fn nonfinite_unit(&mut self, unit: u64, out: &mut WorkerOut) {
    let kind = if unit == 0 { "f64" } else { "f32" };
    let names = ["nan", "pinf", "ninf", "lo", "hi"];
    let forms: [(&str, bool); 4] = [("{a}..{b}", false), ("{a}..={b}", false), ("{a}..{s}..{b}", true), ("{a}..{s}..={b}", true)];
    let mut s = Session::new();
    for d in [format!("one<{}> := 1.0", kind), format!("zero<{}> := 0.0", kind), "nan := zero / zero".to_string(), "pinf := one / zero".to_string(), "ninf := (-one) / zero".to_string(), format!("lo<{}> := 1.0", kind), format!("hi<{}> := 3.0", kind), format!("st<{}> := 1.0", kind)] { s.run(&d); }
    let mut n = 0;
    for (form, stepped) in forms { for a in names { for b in names { for st in if stepped { vec!["st", "nan", "pinf", "ninf"] } else { vec![""] } {
      let bounds_nonfinite = ["nan", "pinf", "ninf"].contains(&a) || ["nan", "pinf", "ninf"].contains(&b) || st == "nan";
      if !bounds_nonfinite && !["pinf", "ninf"].contains(&st) { continue; }
      let expr = form.replace("{a}", a).replace("{b}", b).replace("{s}", st);
      n += 1;
      out.evaluations += 1;
      let o = s.run(&format!("r{} := {}", n, expr));
      let case = format!("[{}] nan := 0/0; pinf := 1/0; ninf := -1/0; lo := 1.0; hi := 3.0; st := 1.0; r := {}", kind, expr);
      match &o {
        Outcome::Panic(m) => out.fail(format!("C15|panic|nonfinite:{}", kind), case, m.clone()),
        Outcome::Value(c) => {
          let len = match c.as_matrix() { Some((r, cc, _)) => r * cc, None => 1 };
          // the statement fixes little for such ranges: an error, the empty vector, or terms of the progression - so a returned vector starts
          // with the start value, holds no NaN and is not long; a NaN start or end denotes no progression at all
          out.nontrivial += 1;
          let elems: Vec<String> = match c.as_matrix() { Some((_, _, e)) => e.iter().map(|x| x.bare()).collect(), None => vec![c.bare()] };
          let start_text = match a { "nan" => "NaN", "pinf" => "inf", "ninf" => "-inf", "lo" => "1.0", _ => "3.0" };
          if len > 0 && (a == "nan" || b == "nan") { out.fail(format!("C15|invalid-nonempty|nan-bound:{}", kind), case, format!("a NaN start or end denotes no progression, got {}", c.short())); }
          else if len > 0 && (elems[0] != start_text || elems.iter().any(|e| e == "NaN") || len > 64) { out.fail(format!("C15|wrong-elements|nonfinite:{}", kind), case, format!("not terms of the progression from {}: {}", start_text, c.short())); }
          let _ = bounds_nonfinite;
        }
        _ => { out.nontrivial += 1; out.count("nonfinite_rejected"); }
      }
    } } } }
  }
}

impl UnitRunner for C15 {
  fn unit(&mut self, payload: &str, unit: u64, out: &mut WorkerOut) {
    if payload == "resolve" { self.resolve_unit(unit, out); return; }
    if payload == "nonfinite" { self.nonfinite_unit(unit, out); return; }
    if payload == "contexts" { self.context_unit(unit, out); return; }
    let ki = (unit / 32) as usize;
    let ai = (unit % 32) as usize;
    if ki >= KINDS.len() { return; }
    let kind = KINDS[ki];
    let p = pool(kind, self.tier);
    if ai >= p.len() { return; }
    let a = &p[ai];
    if a.1 == 0 { return; }
    let steps: Vec<&(i128, i128, String)> = p.iter().filter(|x| x.1 != 0 && (x.0 == 0 || x.0.checked_abs().and_then(|v| v.checked_mul(8)).map(|v| v <= x.1 * 100).unwrap_or(false))).collect();
    for b in p.iter().filter(|x| x.1 != 0) {
      // implicit step forms share one session; explicit steps one session per step
      let mut plans: Vec<(Option<&(i128, i128, String)>, Vec<(&'static str, bool)>)> = vec![(None, vec![("{a}..{b}", false), ("{a}..={b}", true)])];
      for s in &steps { plans.push((Some(*s), vec![("{a}..{s}..{b}", false), ("{a}..{s}..={b}", true)])); }
      for (s, forms) in plans {
        let mut sess = Session::new();
        let da = define("a", kind, &a.2); let db = define("b", kind, &b.2);
        if !sess.run(&da).is_value() || !sess.run(&db).is_value() { out.count("operand_define_rejected"); continue; }
        let ds = s.map(|s| define("s", kind, &s.2));
        if let Some(ds) = &ds { if !sess.run(ds).is_value() { out.count("operand_define_rejected"); continue; } }
        // the operands are what the session actually holds (a 64/128-bit boundary spelled as an annotated literal is rounded
        // through f64 - that is C13's business, not a range defect): read integer operands back
        let actual = |name: &str, spelled: (i128, i128)| -> Option<(i128, i128)> {
          if !is_int(kind) { return Some(spelled); }
          match sess.get(name) { Some(Canon::Num(_, t)) => t.parse::<i128>().ok().map(|v| (v, 1)), _ => None }
        };
        let (av, bv) = match (actual("a", (a.0, a.1)), actual("b", (b.0, b.1))) { (Some(x), Some(y)) => (x, y), _ => { out.count("operand_not_representable_in_reference"); continue; } };
        let sv_actual = match s { Some(s) => match actual("s", (s.0, s.1)) { Some(x) => Some(x), None => { out.count("operand_not_representable_in_reference"); continue; } }, None => None };
        let (da, db) = if is_int(kind) { (define("a", kind, &av.0.to_string()), define("b", kind, &bv.0.to_string())) } else { (da, db) };
        for (n, (form, inclusive)) in forms.iter().enumerate() {
          let expr = form.replace("{a}", "a").replace("{b}", "b").replace("{s}", "s");
          let sv = sv_actual.unwrap_or((1, 1));
          let want = reference(av, sv, bv, *inclusive, kind);
          // a progression longer than the cap is never executed (it would allocate its whole length)
          if matches!(want, Want::Skip) { out.count("skipped_longer_than_64"); continue; }
          out.evaluations += 1;
          if std::env::var("MC_TRACE").is_ok() { eprintln!("{}; {}; {:?}; {}", da, db, ds, expr); }
          let o = sess.run(&format!("r{} := {}", n, expr));
          let case = format!("{}; {}; {}r := {}", da, db, ds.as_ref().map(|d| format!("{}; ", d)).unwrap_or_default(), expr);
          let fname = match (s.is_some(), inclusive) { (false, false) => "exclusive", (false, true) => "inclusive", (true, false) => "step-exclusive", (true, true) => "step-inclusive" };
          let kclass = if is_unsigned(kind) { "unsigned" } else if is_int(kind) { "signed" } else if is_float(kind) { "float" } else { "rational" };
          let at_max = is_int(kind) && { let mx = kind_max(kind); bv.0.to_string() == mx.text() || av.0.to_string() == mx.text() };
          let got: Option<(String, Vec<String>)> = match &o { Outcome::Value(c) => Some(match c { Canon::Matrix(k, _, _, e, _) => (k.clone(), e.iter().map(|x| x.bare()).collect()), other => (other.kind_name(), vec![other.bare()]) }), _ => None };
          if let Outcome::Panic(m) = &o { out.fail(format!("C15|panic|{}:{}", fname, kclass), case, m.clone()); continue; }
          // the same range with its operands written as literals (f64, and unsigned kinds through their suffix) must give the same outcome
          if kind == "f64" || kind == "u8" || kind == "u16" || kind == "u32" {
            let lit = |d: &str| -> Option<String> { d.split(":= ").nth(1).map(|t| { let t = t.trim().to_string(); let t = if kind == "f64" { t } else { format!("{}{}", t, kind) }; if t.starts_with('-') { format!("({})", t) } else { t } }) };
            if let (Some(la), Some(lb)) = (lit(&da), lit(&db)) {
              let ls = ds.as_ref().and_then(|d| lit(d));
              if s.is_none() || ls.is_some() {
                // every operand in each of its spellings: immutable variable, literal, mutable variable (one compile arm per combination)
                if !sess.is_mutable("ma") { let _ = sess.run(&format!("~m{}", da)); let _ = sess.run(&format!("~m{}", db)); if let Some(d) = &ds { let _ = sess.run(&format!("~m{}", d)); } }
                let ls = ls.unwrap_or_default();
                let sp_a = ["a".to_string(), la.clone(), "ma".to_string()];
                let sp_b = ["b".to_string(), lb.clone(), "mb".to_string()];
                let sp_s: Vec<String> = if s.is_some() { vec!["s".to_string(), ls.clone(), "ms".to_string()] } else { vec![String::new()] };
                let mut k = 0;
                for xa in sp_a.iter() { for xb in sp_b.iter() { for xs in sp_s.iter() {
                  if xa == "a" && xb == "b" && (xs == "s" || xs.is_empty()) { continue; }
                  k += 1;
                  let lexpr = form.replace("{a}", xa).replace("{b}", xb).replace("{s}", xs);
                  out.evaluations += 1;
                  let ol = sess.run(&format!("l{}x{} := {}", n, k, lexpr));
                  let same = match (&o, &ol) { (Outcome::Value(x), Outcome::Value(y)) => x == y, (Outcome::Value(_), _) | (_, Outcome::Value(_)) => false, (_, Outcome::Panic(_)) => false, _ => true };
                  if same { out.count("operand_spellings_agree"); } else { out.fail(format!("C15|operand-spelling-differs|{}:{}", fname, kclass), format!("{}; other operand spelling r := {} (ma, mb, ms: the same values in mutable variables)", case.clone(), lexpr), format!("with variables {}, in this spelling {}", o.short(), ol.short())); }
                } } }
              }
            }
          }
          match want {
            Want::Skip => { out.count("skipped_longer_than_64"); }
            Want::Terms(t) => {
              out.nontrivial += 1;
              match &got {
                Some((k, e)) => {
                  out.set("supported_kinds", kind);
                  if e != &t { out.fail(format!("C15|{}|{}:{}:{}", if e.len() != t.len() { "wrong-count" } else { "wrong-elements" }, fname, kclass, if at_max { "at-max" } else { "ascending" }), case, format!("progression {:?}, got {:?}", t, e)); }
                  else if k != kind { out.fail(format!("C15|wrong-kind|{}:{}", fname, kclass), case, format!("operands are {}, result is {}", kind, k)); }
                }
                None => { out.fail(format!("C15|valid-rejected|{}:{}:{}", fname, kclass, if at_max { "at-max" } else { "ascending" }), format!("{} [{}]", case, kind), format!("well-formed ascending range rejected: {}", o.short())); }
              }
            }
            Want::DescendingOrError(t) => {
              match &got { Some((_k, e)) => { out.nontrivial += 1; if e != &t { out.fail(format!("C15|wrong-elements|{}:{}:descending", fname, kclass), case, format!("progression {:?}, got {:?}", t, e)); } } None => { out.count("descending_rejected(not judged)"); } }
            }
            Want::ErrorOrEmpty(why) => {
              out.nontrivial += 1;
              if let Some((_k, e)) = &got { if !e.is_empty() { out.fail(format!("C15|invalid-nonempty|{}:{}:{}", fname, kclass, why), case, format!("cannot be built ({}), got {:?}", why, e)); } }
            }
          }
          if unit % 37 == 0 && n == 0 { out.sample(json!({"program": format!("{}; {}; r := {}", da, db, expr), "value": o.short()})); }
        }
      }
    }
  }
}

impl C15 {
  /// A range over mutable operands, the operands reassigned, the plan re-solved once: the range must then be the progression of the new
  /// operands (or, if the implementation does not recompute it, still that of the old ones) - never a mixture, never extra or stale terms.
  fn resolve_unit(&mut self, unit: u64, out: &mut WorkerOut) {
    let moves: [((i64, i64), (i64, i64)); 8] = [((1, 5), (3, 7)), ((1, 5), (2, 4)), ((2, 4), (1, 6)), ((3, 3), (5, 5)), ((1, 4), (1, 6)), ((2, 6), (4, 6)), ((0, 3), (1, 4)), ((1, 2), (4, 9))];
    let forms: [(&str, bool, i64); 4] = [("a..b", false, 1), ("a..=b", true, 1), ("a..2..b", false, 2), ("a..2..=b", true, 2)];
    let kinds = ["f64", "u8", "i64"];
    let (mi, fi, ki) = ((unit % 8) as usize, ((unit / 8) % 4) as usize, ((unit / 32) % 3) as usize);
    if unit >= 96 { return; }
    let ((x, y), (x2, y2)) = moves[mi];
    let (form, inclusive, step) = forms[fi];
    let kind = kinds[ki];
    let lit = |v: i64| match kind { "u8" => format!("{}u8", v), _ => v.to_string() };
    let expr = if kind == "u8" { form.replace("2", "2u8") } else { form.to_string() };
    let defs = if kind == "i64" { format!("~a<i64> := {}\n~b<i64> := {}", x, y) } else { format!("~a := {}\n~b := {}", lit(x), lit(y)) };
    let asg = if kind == "i64" { format!("t1<i64> := {}\nt2<i64> := {}\na = t1\nb = t2", x2, y2) } else { format!("a = {}\nb = {}", lit(x2), lit(y2)) };
    let prog = |from: i64, to: i64| -> Vec<String> { let mut v = vec![]; let mut t = from; while if inclusive { t <= to } else { t < to } { v.push(match kind { "f64" => crate::canon::f64_text(t as f64), _ => t.to_string() }); t += step; } v };
    let case = format!("{} ; r := {} ; {} ; step(0,1)", defs.replace('\n', " ; "), expr, asg.replace('\n', " ; "));
    let mut s = Session::new();
    out.evaluations += 1;
    if !s.run(&defs).is_value() || !s.run(&format!("r := {}", expr)).is_value() { out.count("resolve_setup_rejected"); return; }
    let terms = |s: &Session| -> Option<Vec<String>> { match s.get("r") { Some(Canon::Matrix(_, _, _, e, _)) => Some(e.iter().map(|x| x.bare()).collect()), Some(other) => Some(vec![other.bare()]), None => None } };
    if terms(&s) != Some(prog(x, y)) { out.count("resolve_first_value_differs(judged by the main family)"); return; }
    if !s.run(&asg).is_value() { out.count("resolve_assignment_rejected"); return; }
    match std::panic::catch_unwind(std::panic::AssertUnwindSafe(|| s.intrp.step(0, 1))) {
      Ok(Ok(_)) => {
        out.nontrivial += 1;
        let got = terms(&s);
        if got != Some(prog(x2, y2)) && got != Some(prog(x, y)) {
          out.fail(format!("C15|stale-or-mixed-after-resolve|{}:{}", form, kind), case, format!("operands now give {:?} (before: {:?}), the range holds {:?}", prog(x2, y2), prog(x, y), got));
        } else if got == Some(prog(x2, y2)) { out.count("resolve_recomputed"); } else { out.count("resolve_kept_old_value"); }
      }
      Ok(Err(_)) => { out.count("resolve_step_rejected"); }
      Err(p) => out.fail(format!("C15|panic|resolve:{}:{}", form, kind), case, crate::subject::panic_msg(p)),
    }
  }
}

impl C15 {
  /// The four range forms with their operands bound locally (function parameters, match-arm bindings, comprehension generators), every local
  /// name shadowed by a global of another value: the range must be the one the same operands give as global variables.
  fn context_unit(&mut self, unit: u64, out: &mut WorkerOut) {
    let kinds = ["f64", "u8", "i64", "f32", "u64", "i8"];
    let forms: [(&str, bool); 4] = [("a..b", false), ("a..=b", false), ("a..s..b", true), ("a..s..=b", true)];
    let (ki, fi) = ((unit / 4) as usize, (unit % 4) as usize);
    if ki >= kinds.len() { return; }
    let kind = kinds[ki];
    let (form, stepped) = forms[fi];
    let avals = [1, 2]; let bvals = [2, 5, 6]; let svals = [1, 2, 3];
    let mut s = Session::new();
    // shadows: globals named like the locals, holding other values
    for d in [format!("a<{}> := 4", kind), format!("s<{}> := 7", kind), format!("b<{}> := 9", kind), format!("z<{}> := 0", kind)] { if !s.run(&d).is_value() { out.count("context_setup_rejected"); return; } }
    let mut n = 0usize;
    for a in avals { for b in bvals { for st in if stepped { svals.to_vec() } else { vec![1] } {
      n += 1;
      let defs = [format!("ga{}<{}> := {}", n, kind, a), format!("gb{}<{}> := {}", n, kind, b), format!("gs{}<{}> := {}", n, kind, st)];
      if defs.iter().any(|d| !s.run(d).is_value()) { out.count("context_setup_rejected"); continue; }
      let (ga, gb, gs) = (format!("ga{}", n), format!("gb{}", n), format!("gs{}", n));
      let top = form.replace("a", &ga).replace("b", &gb).replace("s", &gs);
      // (replace order: "a" first would also hit the a of "ga": build the text from parts instead)
      let top = if stepped { format!("{}..{}..{}{}", ga, gs, if form.contains("=") { "=" } else { "" }, gb) } else { format!("{}..{}{}", ga, if form.contains("=") { "=" } else { "" }, gb) };
      let _ = top.len();
      out.evaluations += 1;
      let base = s.run(&format!("lcb{} := {}", n, top));
      let mut vars = vec![crate::ctx::lv("a", &ga, kind)];
      if stepped { vars.push(crate::ctx::lv("s", &gs, kind)); }
      vars.push(crate::ctx::lv("b", &gb, kind));
      let res = crate::ctx::eval_in_contexts(&mut s, n, &vars, form, &format!("[{}]", kind), "z..=z", true, false);
      for (ctx, text, o) in res {
        out.evaluations += 1;
        let case = format!("[{}] a := 4; s := 7; b := 9 (globals); {} := {}; {} := {}; {} := {}; {}   versus r := {}", kind, ga, a, gb, b, gs, st, text, top);
        match crate::ctx::differs(&base, ctx, &o) {
          None => { if base.is_value() { out.nontrivial += 1; } out.count(&format!("context_agrees:{}", ctx)); }
          Some(d) => {
            // a context the implementation does not support for this kind at all is listed, not judged
            out.fail(format!("C15|local-context-differs|{}:{}:{}", ctx, form, if is_float(kind) { "float" } else if is_unsigned(kind) { "unsigned" } else { "signed" }), case, d);
          }
        }
      }
    } } }
  }
}

impl Check for C15 {
  fn id(&self) -> &'static str { "C15" }
  fn level(&self) -> &'static str { "exploration" }
  fn unit_budget(&self, _t: Tier) -> Duration { Duration::from_secs(120) }
  fn drive(&mut self, tier: Tier, cfg: &PoolCfg, rep: &mut Report) {
    rep.rule = "kind (13: 10 integer kinds, f32, f64, r64) x a x b over a per-kind boundary pool (MIN, MIN+1, small negatives, 0..5.., MAX-5, MAX-1, MAX; dyadic fractions for floats) x {a..b, a..=b} plus every step of the pool x {a..s..b, a..s..=b}; operands are typed variables; \
      the reference is the exact progression a+i*s in fraction arithmetic; evaluations = range expressions; non-trivial = expressions with a fixed verdict (exact terms, or error/empty for zero step and wrong order)".into();
    rep.assumptions = vec![
      "a well-formed descending range (negative step, a > b) may be rejected (the statement's second sentence allows error for bounds/step mismatch and is silent on descent); if a value is returned it must be the descending progression".into(),
      "re-solve family (8 operand moves x 4 forms x f64 / u8 / i64): after the operands are reassigned and the plan is stepped once, the range must be the progression of the new operands or still that of the old ones".into(),
      "results longer than 64 terms are skipped (counted); result orientation is not judged; a kind for which every range is rejected is unsupported".into(),
    ];
    let tier2 = tier;
    rep.describe = Some(Box::new(move |_p, u| { let k = KINDS.get((u / 32) as usize).copied().unwrap_or("?"); let pl = pool(k, tier2); let a = pl.get((u % 32) as usize).map(|x| x.2.clone()).unwrap_or_default(); (format!("ranges:{}", k), format!("some range with a<{}> := {} over the pool", k, a)) }));
    rep.cov("bounds", json!({"kinds": KINDS, "pool_sizes": KINDS.iter().map(|k| pool(k, tier).len()).collect::<Vec<_>>() }));
    let mut jobs = range_jobs("", KINDS.len() as u64 * 32, 1);
    jobs.extend(range_jobs("resolve", 96, 8));
    jobs.extend(range_jobs("nonfinite", 2, 1));
    jobs.extend(range_jobs("contexts", 24, 1));
    drive_ranges(cfg, rep, jobs);
    let supported = rep.out.sets.get("supported_kinds").cloned().unwrap_or_default();
    let before = rep.out.failures.len();
    rep.out.failures.retain(|f| { if f.key.starts_with("C15|valid-rejected|") { let k = f.case.rsplit('[').next().unwrap_or("").trim_end_matches(']'); supported.contains(k) } else { true } });
    rep.cov("rejections_for_unsupported_kinds", json!(before - rep.out.failures.len()));
    if supported.len() < 10 { rep.vacuity.push(format!("ranges evaluated for only {} kinds", supported.len())); }
  }
}
