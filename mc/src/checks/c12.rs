//! C12 — kind annotations convert values faithfully; reshape is column-major; matrix -> set keeps the distinct elements.
//! units: (K1,K2) conversion pairs; reshape units; matrix->set units; no-conversion units.
use super::*;
use crate::canon::{f32_text, f64_text, Canon};
use crate::pool::*;
use crate::refnum::*;
use crate::report::Report;
use crate::subject::*;
use serde_json::json;

pub fn pool(kind: &str, tier: Tier) -> Vec<String> {
  let mut v: Vec<String> = vec![];
  if is_int(kind) {
    let cands: Vec<Wide> = {
      let mut c = vec![kind_min(kind), kind_min(kind).add(&Wide::from_i128(1)).unwrap(), kind_max(kind), kind_max(kind).sub(&Wide::from_i128(1)).unwrap()];
      for x in [-129i128, -128, -1, 0, 1, 2, 127, 128, 255, 256, 32767, 32768, 65535, 65536, 16777217, 2147483647, 2147483648, 4294967295, 4294967296, 9007199254740993] { c.push(Wide::from_i128(x)); }
      if tier == Tier::Thorough { for x in [-32769i128, -32768, -2147483649, -2147483648, 9223372036854775807, 9223372036854775808, 18446744073709551615, 18446744073709551616] { c.push(Wide::from_i128(x)); } }
      c
    };
    for w in cands { if w.fits(kind) { let t = w.text(); if !v.contains(&t) { v.push(t); } } }
  } else if is_float(kind) {
    for t in ["0.0", "-0.0", "0.5", "-0.5", "1.5", "-1.5", "2.5", "-2.5", "3.99", "-3.99", "127.0", "128.0", "-128.0", "-129.0", "255.0", "256.0", "300.0", "-200.0", "65535.5", "2147483648.0", "10000000000.0", "16777217.0", "9007199254740993.0", "18446744073709551616.0", "-9223372036854775809.0"] { v.push(t.to_string()); }
    v.push(if kind == "f32" { "3.0e38".to_string() } else { "1.5e300".to_string() });
    // the infinities have no literal: helper variables pinf / ninf (defined in every session of this check)
    v.push("pinf".to_string()); v.push("ninf".to_string());
  } else if kind == "r64" { for t in ["1/2", "-7/3", "4/2", "0/1", "255/1", "-1/1", "7/2"] { v.push(t.to_string()); } }
  else if kind == "c64" { for t in ["1+2i", "3+0i", "0+0i"] { v.push(t.to_string()); } }
  v
}

fn define_typed(name: &str, kind: &str, spelled: &str) -> String {
  match kind { "r64" | "c64" => format!("{} := {}", name, spelled), _ => format!("{}<{}> := {}", name, kind, spelled) }
}

/// the source value as the session actually holds it -> exact description
#[derive(Clone, Debug)]
pub enum Src { Int(Wide), F64(f64), F32(f32), Rat(i128, i128), Cplx(f64, f64) }

fn src_of(c: &Canon) -> Option<Src> {
  if let Canon::Num(k, t) = c {
    if is_int(k) { return Wide::parse(t).map(Src::Int); }
    return match k.as_str() { "f64" => t.parse().ok().map(Src::F64), "f32" => t.parse().ok().map(Src::F32), "r64" => Frac::parse(t).map(|f| Src::Rat(f.n, f.d)),
      "c64" => { let (a, b) = t.split_once(',')?; Some(Src::Cplx(a.parse().ok()?, b.parse().ok()?)) } _ => None };
  }
  None
}

pub enum Want { Exact(Canon), Unjudged(&'static str) }

fn clamp_trunc(x: f64, kind: &str) -> Canon {
  let t = x.trunc();
  let (mn, mx) = (kind_min(kind), kind_max(kind));
  let mnf = if mn.neg { -(mn.mag as f64) } else { mn.mag as f64 };
  let mxf = mx.mag as f64;
  let w = if t <= mnf { mn } else if t >= mxf { mx } else { Wide { neg: t < 0.0, mag: t.abs() as u128 } };
  Canon::Num(kind.into(), w.text())
}

/// conversion rule of the statement
pub fn reference(src: &Src, k2: &str) -> Want {
  match src {
    Src::Int(w) => {
      if is_int(k2) { if w.fits(k2) { Want::Exact(Canon::Num(k2.into(), w.text())) } else { Want::Unjudged("integer-narrowing-out-of-range") } }
      else if k2 == "f64" { let x = if w.neg { -(w.mag as f64) } else { w.mag as f64 }; Want::Exact(Canon::Num("f64".into(), f64_text(x))) }
      else if k2 == "f32" { let x = if w.neg { -(w.mag as f32) } else { w.mag as f32 }; Want::Exact(Canon::Num("f32".into(), f32_text(x))) }
      else if k2 == "r64" { if w.fits("i64") { Want::Exact(Canon::Num("r64".into(), format!("{}/1", w.text()))) } else { Want::Unjudged("not-representable") } }
      else { Want::Unjudged("to-complex") }
    }
    Src::F64(_) | Src::F32(_) => {
      let x: f64 = match src { Src::F64(x) => *x, Src::F32(x) => *x as f64, _ => 0.0 };
      if x.is_nan() { return Want::Unjudged("nan"); }
      if is_int(k2) { Want::Exact(clamp_trunc(x, k2)) }
      else if k2 == "f64" { Want::Exact(Canon::Num("f64".into(), f64_text(x))) }
      else if k2 == "f32" { Want::Exact(Canon::Num("f32".into(), f32_text(x as f32))) }
      else { Want::Unjudged("float-to-rational-or-complex") }
    }
    Src::Rat(n, d) => {
      if *d == 1 && is_int(k2) { let w = Wide::from_i128(*n); if w.fits(k2) { Want::Exact(Canon::Num(k2.into(), w.text())) } else { Want::Unjudged("out-of-range") } }
      else if k2 == "r64" { Want::Exact(Canon::Num("r64".into(), format!("{}/{}", n, d))) }
      else if k2 == "f64" { Want::Exact(Canon::Num("f64".into(), f64_text(*n as f64 / *d as f64))) }
      else { Want::Unjudged("fractional-rational") }
    }
    Src::Cplx(re, im) => if k2 == "c64" { Want::Exact(Canon::Num("c64".into(), format!("{},{}", f64_text(*re), f64_text(*im)))) } else { Want::Unjudged("from-complex") },
  }
}

pub const SPECIAL_DEFS: [&str; 4] = ["cone := 1.0", "czero := 0.0", "pinf := cone / czero", "ninf := (-cone) / czero"];

pub struct C12 { tier: Tier }
impl C12 { pub fn new(tier: Tier) -> C12 { C12 { tier } } }

const NK: usize = 14;
pub fn n_units() -> u64 { (NK * NK + 3) as u64 }

impl C12 {
  fn pair(&mut self, k1: &str, k2: &str, out: &mut WorkerOut) {
    let vals = pool(k1, self.tier);
    let class = |k: &str| if is_unsigned(k) { "unsigned" } else if is_int(k) { "signed" } else if is_float(k) { "float" } else if k == "r64" { "rational" } else { "complex" };
    let locus0 = format!("{}->{}", class(k1), class(k2));
    // scalars: one session for the whole pool
    let mut s = Session::new();
    for d in SPECIAL_DEFS { s.run(d); }
    let mut mats: Vec<(String, Src)> = vec![];
    for (n, v) in vals.iter().enumerate() {
      let dx = define_typed(&format!("x{}", n), k1, v);
      if !s.run(&dx).is_value() { out.count("source_define_rejected"); continue; }
      let src = match s.get(&format!("x{}", n)).as_ref().and_then(src_of) { Some(x) => x, None => continue };
      out.evaluations += 1;
      let o = s.run(&format!("y{}<{}> := x{}", n, k2, n));
      let case = format!("{}; y<{}> := x", dx.replace(&format!("x{}", n), "x"), k2);
      let want = reference(&src, k2);
      match (&want, &o) {
        (_, Outcome::Panic(m)) => out.fail(format!("C12|panic|{}@scalar", locus0), case.clone(), m.clone()),
        (Want::Unjudged(w), _) => { out.count(&format!("unjudged:{}", w)); }
        (Want::Exact(c), Outcome::Value(_)) => { out.nontrivial += 1; out.set("supported_pairs", &format!("{}->{}", k1, k2)); let g = s.get(&format!("y{}", n)); if g.as_ref() != Some(c) { out.fail(format!("C12|wrong-value|{}@scalar", locus0), case.clone(), format!("x holds {:?}; the rule gives {}, got {:?}", src, c.short(), g.map(|x| x.short()))); } }
        (Want::Exact(c), _) => { out.fail(format!("C12|good-conversion-rejected|{}@scalar", locus0), format!("{} [{}->{}]", case, k1, k2), format!("the rule gives {}, got {}", c.short(), o.short())); }
      }
      // other routes to the same conversion: the annotation written on the reference (y := x<K>) and a mutable source must agree
      if let Outcome::Value(_) = &o {
        let y = s.get(&format!("y{}", n));
        for (route, stmts, name) in [("annotated-reference", vec![format!("e{} := x{}<{}>", n, n, k2)], format!("e{}", n)),
          ("mutable-source", vec![format!("~mx{} := x{}", n, n), format!("my{}<{}> := mx{}", n, k2, n)], format!("my{}", n))] {
          out.evaluations += 1;
          let mut last = Outcome::Error("not run".into());
          for st in &stmts { last = s.run(st); if !last.is_value() { break; } }
          if last.is_value() { out.nontrivial += 1; let g = s.get(&name); if g != y { out.fail(format!("C12|route-differs|{}:{}", route, locus0), format!("{}; {}", case, stmts.join("; ").replace(&format!("{}", n), "")), format!("y<{}> := x gives {:?}, this route {:?}", k2, y.as_ref().map(|c| c.short()), g.map(|c| c.short()))); } else { out.count(&format!("route_agrees:{}", route)); } }
          else { out.count(&format!("route_rejected:{}", route)); }
        }
        // a scalar annotated with a sized matrix kind fills that shape with the converted scalar; an option kind converts like the plain kind
        if let Some(yc) = &y {
          for (r2, c2) in [(1usize, 1usize), (1, 3), (3, 1), (2, 2)] {
            out.evaluations += 1;
            let name = format!("fm{}x{}x{}", n, r2, c2);
            let of = s.run(&format!("{}<[{}]:{},{}> := x{}", name, k2, r2, c2, n));
            let fcase = format!("{}; f<[{}]:{},{}> := x", case, k2, r2, c2);
            match (&of, s.get(&name)) {
              (Outcome::Value(_), Some(Canon::Matrix(_, gr, gc, ge, _))) => { out.nontrivial += 1; out.count("route_agrees:scalar-to-sized-matrix");
                if (gr, gc) != (r2, c2) { out.fail(format!("C12|wrong-shape|scalar-to-matrix:{}", locus0), fcase, format!("expected {}x{}, got {}x{}", r2, c2, gr, gc)); }
                else if ge.iter().any(|e| e != yc) { out.fail(format!("C12|route-differs|scalar-to-matrix:{}", locus0), fcase, format!("y<{}> := x gives {}, the matrix holds {:?}", k2, yc.short(), ge.iter().map(|e| e.short()).collect::<Vec<_>>())); } }
              (Outcome::Value(_), other) => out.fail(format!("C12|wrong-shape|scalar-to-matrix:{}", locus0), fcase, format!("not a matrix: {:?}", other.map(|x| x.short()))),
              (Outcome::Panic(m), _) => out.fail(format!("C12|panic|scalar-to-matrix:{}", locus0), fcase, m.clone()),
              _ => out.count("route_rejected:scalar-to-sized-matrix"),
            }
          }
          out.evaluations += 1;
          let oo = s.run(&format!("fo{}<{}?> := x{}", n, k2, n));
          match (&oo, s.get(&format!("fo{}", n))) {
            (Outcome::Value(_), Some(g)) => { out.nontrivial += 1; if &g != yc { out.fail(format!("C12|route-differs|option-kind:{}", locus0), format!("{}; f<{}?> := x", case, k2), format!("y<{}> := x gives {}, the option kind {}", k2, yc.short(), g.short())); } else { out.count("route_agrees:option-kind"); } }
            (Outcome::Panic(m), _) => out.fail(format!("C12|panic|option-kind:{}", locus0), format!("{}; f<{}?> := x", case, k2), m.clone()),
            _ => out.count("route_rejected:option-kind"),
          }
        }
      }
      mats.push((v.clone(), src));
      if n == 1 { out.sample(json!({"program": case, "result": s.get(&format!("y{}", n)).map(|c| c.short())})); }
    }
    // matrices: every element by the same rule, shape kept (forms 1x3, 3x1, 2x2 filled cyclically from the pool)
    if k1 == "c64" || mats.is_empty() { return; }
    for (fi, (r, c)) in [(1usize, 3usize), (3, 1), (2, 2)].iter().enumerate() {
      for start in (0..mats.len()).step_by(self.tier.pick(3, 1)) {
        let elems: Vec<&(String, Src)> = (0..r * c).map(|i| &mats[(start + i) % mats.len()]).collect();
        let spelled: Vec<String> = elems.iter().map(|e| e.0.clone()).collect();
        let mut s2 = Session::new();
        for d in SPECIAL_DEFS { s2.run(d); }
        let dm = super::c01::define_matrix("m", k1, &spelled, *r, *c);
        if !s2.run(&dm).is_value() { out.count("source_matrix_rejected"); continue; }
        // actual source elements
        let actual: Vec<Src> = match s2.get("m") { Some(Canon::Matrix(_, _, _, e, _)) => e.iter().filter_map(src_of).collect(), _ => continue };
        if actual.len() != r * c { continue; }
        out.evaluations += 1;
        let o = s2.run(&format!("n<[{}]> := m", k2));
        let case = format!("{}; n<[{}]> := m", dm, k2);
        let wants: Vec<Want> = actual.iter().map(|a| reference(a, k2)).collect();
        if wants.iter().all(|w| matches!(w, Want::Unjudged(_))) { continue; }
        match &o {
          Outcome::Panic(m) => out.fail(format!("C12|panic|{}@matrix", locus0), case, m.clone()),
          Outcome::Value(_) => {
            out.nontrivial += 1;
            match s2.get("n") {
              Some(Canon::Matrix(_, gr, gc, ge, _)) => {
                if (gr, gc) != (*r, *c) { out.fail(format!("C12|wrong-shape|{}@{}x{}", locus0, r, c), case, format!("shape {}x{} expected, got {}x{}", r, c, gr, gc)); continue; }
                for (i, w) in wants.iter().enumerate() { if let Want::Exact(cw) = w { if ge.get(i) != Some(cw) { out.fail(format!("C12|wrong-value|{}@matrix", locus0), case.clone(), format!("element {} holds {:?}; the rule gives {}, got {:?}", i, actual[i], cw.short(), ge.get(i).map(|x| x.short()))); break; } } }
              }
              other => out.fail(format!("C12|wrong-shape|{}@{}x{}", locus0, r, c), case, format!("not a matrix: {:?}", other.map(|x| x.short()))),
            }
          }
          _ => { if wants.iter().all(|w| matches!(w, Want::Exact(_))) { out.fail(format!("C12|good-conversion-rejected|{}@matrix", locus0), format!("{} [{}->{}]", case, k1, k2), o.short()); } }
        }
        // the option spelling of the same matrix kind converts like the plain one (or is rejected): it never hands the matrix back unconverted
        if o.is_value() {
          out.evaluations += 1;
          let oo = s2.run(&format!("no<[{}]?> := m", k2));
          let (plain, opt) = (s2.get("n"), s2.get("no"));
          match &oo {
            Outcome::Value(_) => { out.nontrivial += 1; if plain != opt { out.fail(format!("C12|route-differs|option-matrix-kind:{}", locus0), format!("{}; no<[{}]?> := m", dm, k2), format!("n<[{}]> := m gives {:?}, the option kind {:?}", k2, plain.map(|c| c.short()), opt.map(|c| c.short()))); } else { out.count("route_agrees:option-matrix-kind"); } }
            Outcome::Panic(m) => out.fail(format!("C12|panic|option-matrix-kind:{}", locus0), format!("{}; no<[{}]?> := m", dm, k2), m.clone()),
            _ => out.count("route_rejected:option-matrix-kind"),
          }
        }
        let _ = fi;
      }
    }
  }

  fn reshapes(&mut self, out: &mut WorkerOut) {
    let maxn = self.tier.pick(12usize, 16usize);
    // "*" is the wildcard element kind: the annotation fixes the shape only, the elements keep their kind
    let mut pairs = vec![("f64", "f64"), ("f64", "u8"), ("u8", "u8"), ("u8", "f64"), ("f64", "*"), ("u8", "*")];
    if self.tier == Tier::Thorough { pairs.extend([("i64", "*"), ("i64", "i64"), ("f32", "f32"), ("u16", "f32")]); }
    for (k1, k2) in pairs {
      for r in 1..=maxn { for c in 1..=maxn { if r * c > maxn { continue; }
        let vals: Vec<String> = (0..r * c).map(|i| format!("{}", i + 1)).collect();
        let dm = super::c01::define_matrix("m", k1, &vals, r, c);
        let mut s = Session::new();
        if !s.run(&dm).is_value() { continue; }
        let colmajor: Vec<usize> = (0..c).flat_map(|j| (0..r).map(move |i| i * c + j)).collect();   // positions of m in column-major order
        let mut n = 0;
        for r2 in 1..=maxn { for c2 in 1..=maxn { if r2 * c2 > maxn { continue; }
          n += 1;
          out.evaluations += 1; out.nontrivial += 1;
          let o = s.run(&format!("t{}<[{}]:{},{}> := m", n, k2, r2, c2));
          let case = format!("{}; t<[{}]:{},{}> := m", dm, k2, r2, c2);
          let src_class = if r == 1 && c == 1 { "1x1" } else if r == 1 { "row" } else if c == 1 { "col" } else { "mat" };
          let dst_class = if r2 == 1 && c2 == 1 { "1x1" } else if r2 == 1 { "row" } else if c2 == 1 { "col" } else { "mat" };
          let locus = format!("reshape:{}->{}:{}->{}", k1, k2, src_class, dst_class);
          if let Outcome::Panic(m) = &o { out.fail(format!("C12|panic|{}", locus), case, m.clone()); continue; }
          if r * c != r2 * c2 {
            if o.is_value() { out.fail(format!("C12|bad-conversion-accepted|{}", locus), case, format!("{} elements cannot fill {}x{}, got {:?}", r * c, r2, c2, s.get(&format!("t{}", n)).map(|x| x.short()))); }
            continue;
          }
          match (&o, s.get(&format!("t{}", n))) {
            (Outcome::Value(_), Some(Canon::Matrix(gk, gr, gc, ge, _))) => {
              // expected: element (i,j) of the result = the (j*r2+i)-th element of m in column-major order
              let mut want = vec![]; for i in 0..r2 { for j in 0..c2 { want.push(vals[colmajor[j * r2 + i]].clone()); } }
              let got: Vec<String> = ge.iter().map(|x| x.bare().trim_end_matches(".0").to_string()).collect();
              let want_kind = if k2 == "*" { k1 } else { k2 };
              if (gr, gc) != (r2, c2) { out.fail(format!("C12|wrong-shape|{}", locus), case, format!("expected {}x{}, got {}x{}", r2, c2, gr, gc)); }
              else if gk != want_kind { out.fail(format!("C12|wrong-kind|{}", locus), case, format!("expected elements of kind {}, got {}", want_kind, gk)); }
              else if got != want { out.fail(format!("C12|row-major|{}", locus), case, format!("column-major rearrangement {:?}, got {:?}", want, got)); }
            }
            (Outcome::Value(_), Some(other)) => { if !(r2 * c2 == 1) { out.fail(format!("C12|wrong-shape|{}", locus), case, format!("got {}", other.short())); } }
            _ => { out.fail(format!("C12|good-conversion-rejected|{}", locus), format!("{} [{}->{}]", case, k1, k2), format!("equal element count, got {}", o.short())); }
          }
        } }
      } }
    }
  }

  fn to_set(&mut self, out: &mut WorkerOut) {
    // (source kind, 3-value universe, target set element kinds): the set holds exactly the distinct *converted* elements
    let plans: Vec<(&str, [&str; 3], Vec<&str>)> = vec![
      ("f64", ["1", "2", "3"], vec!["f64"]),
      ("f64", ["1", "2", "1.5"], vec!["u8", "i64", "f32", "u16"]),
      ("u8", ["1", "2", "255"], vec!["u8", "f64", "u16", "i64"]),
      ("i64", ["-1", "2", "3"], vec!["i64", "f64", "i8"]),
      ("string", ["\"a\"", "\"b\"", "\"\""], vec!["string"]),
      ("bool", ["true", "false", "true"], vec!["bool"]),
    ];
    for (k1, universe, targets) in plans {
      for (r, c) in [(1usize, 1usize), (1, 2), (2, 1), (1, 3), (3, 1), (2, 2), (2, 3), (3, 2)] {
        let n = r * c;
        if n > self.tier.pick(4, 6) { continue; }
        if k1 != "f64" && n > self.tier.pick(3, 4) { continue; }
        for m in 0..3usize.pow(n as u32) {
          let vals: Vec<String> = (0..n).map(|i| universe[m / 3usize.pow(i as u32) % 3].to_string()).collect();
          let dm = super::c01::define_matrix("m", k1, &vals, r, c);
          let mut s = Session::new();
          if !s.run(&dm).is_value() { out.count("set_source_rejected"); continue; }
          let actual: Vec<Canon> = match s.get("m") { Some(Canon::Matrix(_, _, _, e, _)) => e.clone(), Some(other) => vec![other], None => continue };
          for (ti, k2) in targets.iter().enumerate() {
            out.evaluations += 1;
            let o = s.run(&format!("q{}<{{{}}}> := m", ti, k2));
            let case = format!("{}; q<{{{}}}> := m", dm, k2);
            // the rule of the statement applied to every element as held
            let mut want: Vec<String> = vec![]; let mut judged = true;
            for a in &actual {
              if k1 == "string" || k1 == "bool" { want.push(a.bare()); continue; }
              match src_of(a).map(|x| reference(&x, k2)) { Some(Want::Exact(cw)) => want.push(cw.bare()), _ => { judged = false; } }
            }
            if !judged { out.count("set_conversion_unjudged"); continue; }
            want.sort(); want.dedup();
            out.nontrivial += 1;
            let locus = format!("matrix->set:{}->{}:{}x{}", k1, k2, r, c);
            match (&o, s.get(&format!("q{}", ti))) {
              (Outcome::Value(_), Some(Canon::Set(gk, e, declared))) => {
                let mut got: Vec<String> = e.iter().map(|x| x.bare()).collect(); let len = got.len(); got.sort();
                out.set("supported_set_pairs", &format!("{}->{}", k1, k2));
                if got != want || declared != len { out.fail(format!("C12|wrong-value|{}", locus), case, format!("distinct converted elements {:?}, got {:?} (declared size {})", want, got, declared)); }
                else if e.iter().any(|x| match x { Canon::Num(k, _) => k != k2, _ => false }) || (gk != *k2 && !e.is_empty()) { out.fail(format!("C12|wrong-kind|{}", locus), case, format!("a {{{}}} was requested, got {{{}}} holding {:?}", k2, gk, e.iter().map(|x| x.short()).collect::<Vec<_>>())); }
              }
              (Outcome::Panic(m), _) => out.fail(format!("C12|panic|matrix->set:{}->{}", k1, k2), case, m.clone()),
              _ => out.fail(format!("C12|good-conversion-rejected|{}", locus), format!("{} [set {}->{}]", case, k1, k2), o.short()),
            }
          }
        }
      }
    }
  }

  fn no_conversion(&mut self, out: &mut WorkerOut) {
    // the statement's example of a kind with no conversion is string -> number; Boolean and set sources are recorded, not judged
    for (src, k2) in [("\"5\"", "f64"), ("\"5\"", "u8"), ("\"abc\"", "i64"), ("\"1.5\"", "f32"), ("\"5\"", "r64"), ("[\"a\" \"b\"]", "[f64]"), ("[\"1\" \"2\"]", "[u8]"), ("\"x\"", "[f64]:1,1"),
      ("[\"a\" \"b\" \"a\"]", "{f64}"), ("[\"1\" \"2\"]", "{u8}"), ("[\"1\"; \"2\"]", "{i64}"), ("[\"1\" \"2\"; \"3\" \"4\"]", "{f32}"), ("[\"1\"]", "{u16}"), ("[\"a\" \"b\"]", "[f64]:2,1"), ("[\"a\" \"b\"]", "[*]:2,2"), ("[\"7\"; \"8\"]", "[i8]")] {
      let mut s = Session::new();
      if !s.run(&format!("a := {}", src)).is_value() { continue; }
      out.evaluations += 1; out.nontrivial += 1;
      let o = s.run(&format!("b<{}> := a", k2));
      if let Outcome::Value(c) = &o { out.fail("C12|bad-conversion-accepted|no-conversion".into(), format!("a := {}; b<{}> := a", src, k2), format!("no conversion is defined, got {}", c.short())); }
      if let Outcome::Panic(m) = &o { out.fail("C12|panic|no-conversion".into(), format!("a := {}; b<{}> := a", src, k2), m.clone()); }
    }
  }
}

impl UnitRunner for C12 {
  fn unit(&mut self, _payload: &str, unit: u64, out: &mut WorkerOut) {
    let u = unit as usize;
    if u < NK * NK { let (k1, k2) = (NUM_KINDS[u / NK], NUM_KINDS[u % NK]); self.pair(k1, k2, out); }
    else if u == NK * NK { self.reshapes(out); }
    else if u == NK * NK + 1 { self.to_set(out); context_unit(out); }
    else { self.no_conversion(out); }
  }
}

impl Check for C12 {
  fn id(&self) -> &'static str { "C12" }
  fn level(&self) -> &'static str { "exploration" }
  fn unit_budget(&self, _t: Tier) -> Duration { Duration::from_secs(300) }
  fn drive(&mut self, tier: Tier, cfg: &PoolCfg, rep: &mut Report) {
    rep.rule = format!("every ordered pair of the 14 numeric kinds x a per-kind boundary pool (MIN, MIN+1, -129..256, 2^15, 2^16, 2^24+1, 2^31, 2^32, 2^53+1, MAX-1, MAX; floats: signed zeros, +-0.5, +-1.5, +-2.5, +-3.99, 127/128/255/256, 300, -200, 2^31, 1e10, 2^24+1, 2^53+1, 2^64, -(2^63+1), 3e38/1.5e300; rationals; complex) as scalar and as 1x3, 3x1, 2x2 matrices; the source value is read back from the session and the rule of the statement is applied to it (exact when representable, truncate-and-clamp for float->int, nearest for ->float); \
      every reshape (r,c)->(r',c') with at most {} elements for f64->f64, f64->u8, u8->u8, u8->f64 (equal count: column-major; unequal: must be rejected); matrix -> set for every filling of every shape up to {} elements over a 3-value universe; kinds with no conversion (string->number, number->bool, bool->number, set->number) must be rejected; evaluations = conversions; non-trivial = conversions with a fixed verdict", tier.pick(12, 16), tier.pick(4, 6));
    rep.assumptions = vec!["integer -> narrower integer out of range, NaN, float/fractional rational -> rational/complex are not judged".into(), "a kind pair for which every conversion is rejected is unsupported".into()];
    rep.cov("bounds", json!({"kind_pairs": NK * NK}));
    drive_ranges(cfg, rep, range_jobs("", n_units(), 1));
    let supported = rep.out.sets.get("supported_pairs").cloned().unwrap_or_default();
    let supported_sets = rep.out.sets.get("supported_set_pairs").cloned().unwrap_or_default();
    let before = rep.out.failures.len();
    rep.out.failures.retain(|f| { if f.key.starts_with("C12|good-conversion-rejected|") && f.case.ends_with(']') { let k = f.case.rsplit('[').next().unwrap_or("").trim_end_matches(']'); if let Some(sk) = k.strip_prefix("set ") { supported_sets.contains(sk) } else { supported.contains(k) } } else { true } });
    rep.cov("rejections_for_unsupported_kind_pairs", json!(before - rep.out.failures.len()));
    if supported.len() < 100 { rep.vacuity.push(format!("only {} kind pairs converted", supported.len())); }
  }
}

/// Annotated references whose variable is bound locally (function parameter, match-arm binding, comprehension generator; shadowed by a
/// global of another value): the conversion must be the one the same annotation gives on a global variable.
fn context_unit(out: &mut WorkerOut) {
  use crate::ctx::{lv, Tpl};
  let mut s = Session::new();
  for d in ["a := 7.5", "m := [9 9]"] { s.run(d); }
  let srcs: [(&str, &str, &str); 5] = [("f64", "300.7", "gf"), ("f64", "-3.99", "gn"), ("u8", "200", "gu"), ("i64", "-5", "gi"), ("f32", "2.5", "gs")];
  for (k, v, g) in srcs { s.run(&define_typed(g, k, v)); }
  s.run("gm := [1.5 300.7 -2.5]"); s.run("gq<[u8]> := [1 2 3 4]");
  let mut tpls: Vec<Tpl> = vec![];
  for (k, _, g) in srcs { for t in ["u8", "i8", "i64", "f32", "f64", "u16"] {
    tpls.push(Tpl { local: format!("a<{}>", t), top: format!("{}<{}>", g, t), vars: vec![lv("a", g, k)], scalar_operands: true, set_ok: true, tag: format!("annotated-reference:{}->{}", k, t), fn_ok: true });
    tpls.push(Tpl { local: format!("a<{}> + a<{}>", t, t), top: format!("{}<{}> + {}<{}>", g, t, g, t), vars: vec![lv("a", g, k)], scalar_operands: true, set_ok: false, tag: format!("annotated-reference-in-formula:{}->{}", k, t), fn_ok: true });
  } }
  for t in ["[u8]", "[i64]", "[f32]", "[u8]:3,1", "{f64}"] { tpls.push(Tpl { local: format!("m<{}>", t), top: format!("gm<{}>", t), vars: vec![lv("m", "gm", "[f64]")], scalar_operands: false, set_ok: false, tag: format!("annotated-reference:[f64]->{}", t), fn_ok: true }); }
  for t in ["[f64]", "[u16]", "[u8]:2,2", "[*]:2,2", "{u8}"] { tpls.push(Tpl { local: format!("m<{}>", t), top: format!("gq<{}>", t), vars: vec![lv("m", "gq", "[u8]")], scalar_operands: false, set_ok: false, tag: format!("annotated-reference:[u8]->{}", t), fn_ok: true }); }
  crate::ctx::judge_templates("C12", &mut s, &tpls, 0, "a := 7.5; m := [9 9] (globals); gf<f64> := 300.7; gn<f64> := -3.99; gu<u8> := 200; gi<i64> := -5; gs<f32> := 2.5; gm := [1.5 300.7 -2.5]; gq<[u8]> := [1 2 3 4]", out);
}
