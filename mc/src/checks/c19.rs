//! C19 — re-evaluation (step) is deterministic, n single steps equal one request for n, and it is a no-op for
//! programs without assignment. unit = one program (a dependency-respecting statement sequence).
use super::*;
use crate::canon::Canon;
use crate::pool::*;
use crate::report::Report;
use crate::subject::*;
use serde_json::json;
use std::panic::{catch_unwind, AssertUnwindSafe};

#[derive(Clone, Debug)]
pub struct St { pub text: &'static str, pub defs: &'static [&'static str], pub needs: &'static [&'static str], pub mutation: bool }

pub fn alphabet() -> Vec<St> {
  macro_rules! st { ($t:expr, $d:expr, $n:expr, $m:expr) => { St { text: $t, defs: $d, needs: $n, mutation: $m } }; }
  vec![
    st!("a := 1 + 2", &["a"], &[], false),
    st!("b := [1 2 3]", &["b"], &[], false),
    st!("c := [a a; 2 3]", &["c"], &["a"], false),
    st!("d := b[2]", &["d"], &["b"], false),
    st!("e := b[1..=2]", &["e"], &["b"], false),
    st!("f := 1..=4", &["f"], &[], false),
    st!("g := {1,2,3}", &["g"], &[], false),
    st!("h := g ∪ {4}", &["h"], &["g"], false),
    st!("i := {q * 2 | q <- g}", &["i"], &["g"], false),
    st!("t := |x<f64> y<f64>| 1 2 | 3 4 |", &["t"], &[], false),
    st!("u := t.x", &["u"], &["t"], false),
    st!("r := {p: 1, q: \"s\"}", &["r"], &[], false),
    st!("s := r.p", &["s"], &["r"], false),
    st!("v<u8> := 200", &["v"], &[], false),
    st!("w<[f64]:3,1> := b", &["w"], &["b"], false),
    st!("st := \"ab\" + \"cd\"", &["st"], &[], false),
    st!("k := a * 2", &["k"], &["a"], false),
    st!("m := b + a", &["m"], &["b", "a"], false),
    st!("n := b'", &["n"], &["b"], false),
    st!("o := b > 1", &["o"], &["b"], false),
    st!("z := -b", &["z"], &["b"], false),
    st!("tp := (a, 2)", &["tp"], &["a"], false),
    st!("inc(q<f64>) => <f64>\n  ├ 0 => 1\n  └ q => q + 1.\nfi := inc(a)", &["fi"], &["a"], false),
    st!("mt := a?\n  | 3 => 30\n  | * => 0.", &["mt"], &["a"], false),
    st!("#C(q<u64>) => <u64>\n  ├ :A(q<u64>)\n  └ :D(q<u64>).\n\n#C(q<u64>) -> :A(q)\n  :A(q)\n    ├ q > 0u64 -> :A(q - 1u64)\n    └ q == 0u64 -> :D(7u64)\n  :D(q) => q.\n\nfs := #C(3u64)", &["fs"], &[], false),
    st!("sz := set/size(g)", &["sz"], &["g"], false),
    st!("sm := stats/sum/column(c)", &["sm"], &["c"], false),
    st!("mm := c ** c", &["mm"], &["c"], false),
    st!("j := t ⋈ t", &["j"], &["t"], false),
    st!("ou := b' ** b", &["ou"], &["b"], false),
    st!("ip := b ** b'", &["ip"], &["b"], false),
    st!("mv := c ** [1; 2]", &["mv"], &["c"], false),
    st!("vm := [1 2] ** c", &["vm"], &["c"], false),
    st!("dt := b · b", &["dt"], &["b"], false),
    st!("cs := math/cos(a)", &["cs"], &["a"], false),
    st!("ab := math/abs(z)", &["ab"], &["z"], false),
    st!("sq := b ^ 2", &["sq"], &["b"], false),
    st!("md := b % 2", &["md"], &["b"], false),
    st!("hc := [b b]", &["hc"], &["b"], false),
    st!("vc := [b; b]", &["vc"], &["b"], false),
    // mutable state and mutation statements
    st!("~x := 10", &["x"], &[], false),
    st!("~y := [1 2 3]", &["y"], &[], false),
    st!("~x := a", &["x"], &["a"], false),
    st!("~y := b", &["y"], &["b"], false),
    st!("x = 5", &[], &["x"], true),
    st!("x += 1", &[], &["x"], true),
    st!("x *= 2", &[], &["x"], true),
    st!("y[2] = 9", &[], &["y"], true),
    st!("y[1] += 1", &[], &["y"], true),
    st!("y += 1", &[], &["y"], true),
    st!("y[[1 3]] = [7 8]", &[], &["y"], true),
    st!("x = a", &[], &["x", "a"], true),
    st!("x = x + 1", &[], &["x"], true),
    st!("x = a + x", &[], &["x", "a"], true),
    st!("y = y * 2", &[], &["y"], true),
    st!("p := x + 1", &["p"], &["x"], false),
    st!("q := y * 2", &["q"], &["y"], false),
    st!("yy := y[2]", &["yy"], &["y"], false),
    // values whose shape depends on mutable state
    st!("rg := 1..=x", &["rg"], &["x"], false),
    st!("rs := x..2..=20", &["rs"], &["x"], false),
    st!("hy := [y y]", &["hy"], &["y"], false),
    st!("sy := y'", &["sy"], &["y"], false),
  ]
}

/// every dependency-respecting sequence up to the length bound (no redefinition)
pub fn programs(tier: Tier) -> Vec<Vec<usize>> {
  let al = alphabet();
  let maxlen = tier.pick(3, 4);
  let mut out: Vec<Vec<usize>> = vec![];
  fn rec(al: &[St], cur: &mut Vec<usize>, defined: &mut Vec<&'static str>, maxlen: usize, tier: Tier, out: &mut Vec<Vec<usize>>) {
    if !cur.is_empty() { out.push(cur.clone()); }
    if cur.len() == maxlen { return; }
    for (i, s) in al.iter().enumerate() {
      if !s.needs.iter().all(|n| defined.contains(n)) { continue; }
      if s.defs.iter().any(|d| defined.contains(d)) { continue; }
      // beyond length 2 only statements that interact with what is there (need something) or mutate are added: independent
      // defines commute and add nothing
      if cur.len() >= 2 && s.needs.is_empty() { continue; }
      if cur.len() >= 3 && !s.mutation && tier == Tier::Thorough && s.needs.len() < 1 { continue; }
      cur.push(i);
      let nd = s.defs.len();
      defined.extend(s.defs.iter());
      rec(al, cur, defined, maxlen, tier, out);
      for _ in 0..nd { defined.pop(); }
      cur.pop();
    }
  }
  rec(&al, &mut vec![], &mut vec![], maxlen, tier, &mut out);
  // keep programs whose last statement is not an isolated independent define after another (dedupe by sorted independent prefix)
  out
}

pub struct C19 { tier: Tier, al: Vec<St>, progs: Vec<Vec<usize>> }
impl C19 { pub fn new(tier: Tier) -> C19 { C19 { tier, al: alphabet(), progs: programs(tier) } } }

type Snap = Vec<(String, bool, Canon)>;

fn run_prog(al: &[St], prog: &[usize]) -> Option<Session> {
  let mut s = Session::new();
  for i in prog { if !s.run(al[*i].text).is_value() { return None; } }
  Some(s)
}

fn step(s: &mut Session, n: u64) -> Result<(), String> {
  match catch_unwind(AssertUnwindSafe(|| s.intrp.step(0, n))) { Ok(Ok(_)) => Ok(()), Ok(Err(e)) => Err(format!("Err({})", e.kind_name())), Err(p) => Err(format!("PANIC({})", panic_msg(p))) }
}

/// the same program driven through the REPL's `:step` command (the harness built with the `mech` crate): the snapshot after the
/// given sequence of step requests, None when the REPL rejects a command
#[cfg(feature = "fs")]
fn repl_steps(al: &[St], prog: &[usize], requests: &[u64]) -> Result<Snap, String> {
  let s = run_prog(al, prog).ok_or("program rejected")?;
  let mut repl = mech::MechRepl::from(s.intrp);
  for n in requests {
    let (_, cmd) = mech_syntax::repl::parse_repl_command(&format!(":step {}", n)).map_err(|_| ":step does not parse".to_string())?;
    match catch_unwind(AssertUnwindSafe(|| repl.execute_repl_command(cmd))) { Ok(Ok(_)) => {} Ok(Err(e)) => return Err(format!("Err({})", e.kind_name())), Err(p) => return Err(format!("PANIC({})", panic_msg(p))) }
  }
  let active = repl.active;
  let intr = repl.interpreters.remove(&active).ok_or("no active interpreter")?;
  Ok(Session { intrp: intr }.snapshot())
}

fn first_diff(a: &Snap, b: &Snap) -> String {
  for (x, y) in a.iter().zip(b.iter()) { if x != y { return format!("{}: {} vs {}", x.0, x.2.short(), y.2.short()); } }
  format!("{} vs {} names", a.len(), b.len())
}

pub const OPERATOR_FORMS: [&str; 38] = ["+", "-", "*", "/", "%", "^", "**", "·", "\\", "==", "!=", "<", "<=", ">", ">=", "&&", "||", "⊕", "∪", "∩", "∖", "Δ", "⊆", "⊇", "⊂", "⊃", "∈", "∉", "⋈", "⟕", "⟖", "⟗", "⋉", "▷", "≠", "-x", "!x", "x'"];

/// the units of the kernel family: every registered function by name, then every operator spelling
pub fn kernel_items() -> Vec<String> {
  let mut v: Vec<String> = stdlib_functions().into_iter().map(|s| s.to_string()).collect();
  for o in OPERATOR_FORMS { v.push(format!("operator {}", o)); }
  v
}

/// every function compiler the standard library registers (what a call `name(args)` resolves to), sorted
pub fn stdlib_functions() -> Vec<&'static str> {
  let mut v: Vec<&'static str> = inventory::iter::<mech_core::FunctionCompilerDescriptor>.into_iter().map(|d| d.name).collect();
  v.sort(); v.dedup();
  v
}

pub const KERNEL_POOL: [(&str, &str); 20] = [
  ("a", "a := 3.0"), ("h", "h := 0.5"), ("b", "b := [1 2 3]"), ("cv", "cv := [1; 2; 3]"), ("c", "c := [1 2; 3 4]"), ("d", "d := [4 3; 6 3]"), ("e", "e := [1 2 3; 4 5 6]"), ("cw", "cw := [5; 6]"),
  ("g", "g := {1,2,3}"), ("gg", "gg := {2,3,4}"), ("t", "t := |x<f64> y<f64>| 1 2 | 3 4 |"), ("tt", "tt := |x<f64> z<f64> w<f64>| 1 5 6 | 3 7 8 | 3 9 9 |"),
  ("s", "s := \"ab\""), ("bo", "bo := true"), ("bv", "bv := [true false true]"), ("u", "u<u8> := 5"), ("ub", "ub<[u8]> := [1 2 3]"), ("k", "k<u64> := 2"),
  ("x", "~x := 2.0"), ("y", "~y := [4 5 6]"),
];

impl C19 {
  /// one standard-library function: every call of arity 1 and 2 over the operand pool (arity 3 over the numeric operands) that evaluates is
  /// kept; the program (pool + accepted calls, no assignment statement) is stepped: re-evaluation must change nothing, one request for n
  /// steps must equal n single steps, and (with two assignments appended) two interpreters / processes must agree
  fn kernel_unit(&mut self, fi: usize, unit: u64, out: &mut WorkerOut) {
    let items = kernel_items();
    let fname: &str = &items[fi];
    let names: Vec<&str> = KERNEL_POOL.iter().map(|p| p.0).collect();
    let mut calls: Vec<String> = vec![];
    if let Some(op) = fname.strip_prefix("operator ") {
      match op {
        "-x" | "!x" => for x in &names { calls.push(format!("{}{}", &op[..op.len() - 1], x)); },
        "x'" => for x in &names { calls.push(format!("{}'", x)); },
        _ => for x in &names { for y in &names { calls.push(format!("{} {} {}", x, op, y)); } },
      }
    } else {
      for x in &names { calls.push(format!("{}({})", fname, x)); }
      for x in &names { for y in &names { calls.push(format!("{}({}, {})", fname, x, y)); } }
      for x in ["a", "h", "b", "c"] { for y in ["a", "h", "b", "c"] { for z in ["a", "k", "b"] { calls.push(format!("{}({}, {}, {})", fname, x, y, z)); } } }
    }
    // a call of an op-assignment kernel by name is an op-assignment in function-call spelling: such programs are not in the no-op class
    let assigns = fname.contains("-assign");
    // discovery in a scratch session
    let mut scratch = Session::new();
    for (_, d) in KERNEL_POOL.iter() { scratch.run(d); }
    let mut kept: Vec<String> = vec![];
    for (i, c) in calls.iter().enumerate() {
      let st = format!("r{} := {}", letters(i), c);
      if scratch.run(&st).is_value() { kept.push(st); }
    }
    drop(scratch);
    out.evaluations += 1;
    out.add("stdlib_calls_tried", calls.len() as u64);
    if kept.is_empty() { out.set("stdlib_functions_without_an_accepted_call", fname); return; }
    let build = |extra: &[&str]| -> Option<Session> {
      let mut s = Session::new();
      for (_, d) in KERNEL_POOL.iter() { if !s.run(d).is_value() { return None; } }
      for st in &kept { if !s.run(st).is_value() { return None; } }
      for st in extra { if !s.run(st).is_value() { return None; } }
      Some(s)
    };
    let maxn = self.tier.pick(2u64, 3u64);
    let mut digest_src = String::new();
    for (cls, extra) in [(if assigns { "with-assignment-call" } else { "pure" }, vec![]), ("with-assignment", vec!["x = 5.0", "y[2] = 9"])] {
      let locus = format!("{}:stdlib:{}", cls, fname);
      let case = format!("operand pool; {}{}", kept.iter().take(6).cloned().collect::<Vec<_>>().join(" ; "), if kept.len() > 6 { format!(" ; ... ({} accepted calls of {})", kept.len(), fname) } else { String::new() });
      let mut sa = match build(&extra) { Some(s) => s, None => { out.count("stdlib_program_not_reproducible"); continue; } };
      out.nontrivial += 1;
      out.add("stdlib_calls_stepped", kept.len() as u64);
      out.set("stdlib_functions_stepped", fname);
      let s0 = sa.snapshot();
      let mut singles: Vec<Snap> = vec![s0.clone()];
      let mut ok = true;
      for k in 1..=maxn {
        if let Err(e) = step(&mut sa, 1) { out.fail(format!("C19|step-failed|{}", locus), case.clone(), format!("step(0,1) #{}: {}", k, e)); ok = false; break; }
        singles.push(sa.snapshot());
      }
      if !ok { continue; }
      if let Some(mut sb) = build(&extra) {
        let mut rep = vec![sb.snapshot()];
        for _ in 1..=maxn { if step(&mut sb, 1).is_err() { break; } rep.push(sb.snapshot()); }
        for (k, (x, y)) in singles.iter().zip(rep.iter()).enumerate() { if x != y { out.fail(format!("C19|repeat-dependent|{}", locus), case.clone(), format!("two interpreters differ after {} steps: {}", k, first_diff(x, y))); break; } }
      }
      for n in 2..=maxn {
        if let Some(mut sc) = build(&extra) {
          match step(&mut sc, n) {
            Ok(()) => { let t = sc.snapshot(); if t != singles[n as usize] { out.fail(format!("C19|n-singles-differ|{}", locus), case.clone(), format!("step(0,{}) vs {} single steps: {}", n, n, first_diff(&t, &singles[n as usize]))); } }
            Err(e) => out.fail(format!("C19|step-failed|{}", locus), case.clone(), format!("step(0,{}): {}", n, e)),
          }
        }
      }
      if cls == "pure" {
        for (k, s) in singles.iter().enumerate().skip(1) { if s != &s0 { out.fail(format!("C19|noop-violated|{}", locus), case.clone(), format!("after {} steps: {}", k, first_diff(s, &s0))); break; } }
      }
      digest_src.push_str(&format!("{:?}", singles));
    }
    out.extra.push(json!({"unit": unit, "digest": format!("{:016x}", fnv(digest_src.as_bytes()))}));
    if fi % 23 == 0 { out.sample(json!({"stdlib_function": fname, "accepted_calls": kept.iter().take(5).collect::<Vec<_>>()})); }
  }
}

fn letters(mut i: usize) -> String { let mut s = String::new(); loop { s.push((b'a' + (i % 26) as u8) as char); i /= 26; if i == 0 { break; } } s }

impl UnitRunner for C19 {
  fn unit(&mut self, _payload: &str, unit: u64, out: &mut WorkerOut) {
    if unit as usize >= self.progs.len() { let fi = unit as usize - self.progs.len(); return self.kernel_unit(fi, unit, out); }
    let prog = &self.progs[unit as usize];
    let text: Vec<&str> = prog.iter().map(|i| self.al[*i].text).collect();
    let case = text.join(" ; ").replace('\n', " ");
    let has_mut = prog.iter().any(|i| self.al[*i].mutation);
    let last = prog.last().map(|i| self.al[*i].text.split_whitespace().take(3).collect::<Vec<_>>().join(" ")).unwrap_or_default();
    let locus = format!("{}:{}", if has_mut { "with-assignment" } else { "pure" }, last.replace(|c: char| c.is_ascii_digit(), "n"));
    out.evaluations += 1;
    let mut sa = match run_prog(&self.al, prog) { Some(s) => s, None => { out.count("program_has_a_failing_statement"); out.set("failing_programs", &case); return; } };
    out.nontrivial += 1;
    let s0 = sa.snapshot();
    let maxn = self.tier.pick(2u64, 3u64);
    let mut singles: Vec<Snap> = vec![s0.clone()];
    for k in 1..=maxn {
      if let Err(e) = step(&mut sa, 1) { out.fail(format!("C19|step-failed|{}", locus), case.clone(), format!("step(0,1) #{}: {}", k, e)); return; }
      singles.push(sa.snapshot());
    }
    // repeat in a second interpreter of the same process
    if let Some(mut sb) = run_prog(&self.al, prog) {
      let mut rep = vec![sb.snapshot()];
      for _ in 1..=maxn { if step(&mut sb, 1).is_err() { break; } rep.push(sb.snapshot()); }
      for (k, (x, y)) in singles.iter().zip(rep.iter()).enumerate() { if x != y { out.fail(format!("C19|repeat-dependent|{}", locus), case.clone(), format!("two interpreters differ after {} steps: {}", k, first_diff(x, y))); break; } }
    }
    // one request for n steps
    for n in 2..=maxn {
      if let Some(mut sc) = run_prog(&self.al, prog) {
        match step(&mut sc, n) {
          Ok(()) => { let t = sc.snapshot(); if t != singles[n as usize] { out.fail(format!("C19|n-singles-differ|{}", locus), case.clone(), format!("step(0,{}) vs {} single steps: {}", n, n, first_diff(&t, &singles[n as usize]))); } }
          Err(e) => out.fail(format!("C19|step-failed|{}", locus), case.clone(), format!("step(0,{}): {}", n, e)),
        }
      }
    }
    // the REPL's `:step` command: one request for n and n requests for 1 must both leave what n single steps of the interpreter left
    #[cfg(feature = "fs")]
    for n in 1..=maxn {
      for (how, reqs) in [("one-request", vec![n]), ("single-requests", vec![1u64; n as usize])] {
        if n == 1 && how == "single-requests" { continue; }
        out.evaluations += 1;
        match repl_steps(&self.al, prog, &reqs) {
          Ok(t) => { out.nontrivial += 1; if t != singles[n as usize] { out.fail(format!("C19|repl-step-differs|{}:{}", how, locus), format!("{} ;; REPL {}", case, reqs.iter().map(|r| format!(":step {}", r)).collect::<Vec<_>>().join(" ; ")), format!("the REPL after {:?} vs {} single steps of the interpreter: {}", reqs, n, first_diff(&t, &singles[n as usize]))); } else { out.count("repl_step_agrees"); } }
          Err(e) => { if e.starts_with("PANIC") { out.fail(format!("C19|step-failed|repl:{}", locus), case.clone(), e); } else { out.count("repl_step_rejected"); } }
        }
      }
    }
    // the profiled code path of step() must behave like the plain one (n single steps = one request for n, same values)
    for n in 1..=maxn {
      if let Some(mut sp) = run_prog(&self.al, prog) {
        sp.intrp.profile = true;
        match step(&mut sp, n) {
          Ok(()) => { let t = sp.snapshot(); if t != singles[n as usize] { out.fail(format!("C19|n-singles-differ|profiled:{}", locus), case.clone(), format!("profiled step(0,{}) vs {} plain single steps: {}", n, n, first_diff(&t, &singles[n as usize]))); } }
          Err(e) => out.fail(format!("C19|step-failed|profiled:{}", locus), case.clone(), format!("profiled step(0,{}): {}", n, e)),
        }
      }
    }
    // without assignment statements re-evaluation changes nothing
    if !has_mut {
      for (k, s) in singles.iter().enumerate().skip(1) { if s != &s0 { out.fail(format!("C19|noop-violated|{}", locus), case.clone(), format!("after {} steps: {}", k, first_diff(s, &s0))); break; } }
    }
    // digest for the cross-process comparison done by the driver
    let dig = fnv(format!("{:?}", singles).as_bytes());
    out.extra.push(json!({"unit": unit, "digest": format!("{:016x}", dig)}));
    if unit % 97 == 0 { out.sample(json!({"program": text, "after_2_steps": singles.last().map(|s| s.iter().map(|(n, _, c)| format!("{}={}", n, c.short())).collect::<Vec<_>>())})); }
  }
}

impl Check for C19 {
  fn id(&self) -> &'static str { "C19" }
  fn level(&self) -> &'static str { "model_checking" }
  fn unit_budget(&self, _t: Tier) -> Duration { Duration::from_secs(30) }
  fn drive(&mut self, tier: Tier, cfg: &PoolCfg, rep: &mut Report) {
    let nf = kernel_items().len() as u64;
    let n = self.progs.len() as u64 + nf;
    let progs = self.progs.clone();
    let al = self.al.clone();
    rep.describe = Some(Box::new(move |_p, u| if u as usize >= progs.len() { ("step:stdlib".to_string(), format!("calls of {}", kernel_items()[u as usize - progs.len()])) } else { ("step".to_string(), progs[u as usize].iter().map(|i| al[*i].text).collect::<Vec<_>>().join(" ; ").replace('\n', " ")) }));
    // two passes in two sets of worker processes (different hash seeds and addresses)
    let mut digests: Vec<Vec<(u64, String)>> = vec![vec![], vec![]];
    for pass in 0..2 {
      let mut found = vec![];
      run_jobs(cfg, range_jobs(if pass == 0 { "p0" } else { "p1" }, n, 4), &mut |ev| {
        if let Event::Done(_, o) = &ev { for x in &o.extra { found.push((x["unit"].as_u64().unwrap(), x["digest"].as_str().unwrap().to_string())); } }
        rep.absorb(ev);
      });
      rep.out.extra.clear();
      found.sort();
      digests[pass] = found;
    }
    let d1: std::collections::BTreeMap<u64, String> = digests[1].iter().cloned().collect();
    let mut cross = 0u64;
    for (u, d) in &digests[0] {
      if let Some(e) = d1.get(u) { cross += 1; if e != d {
        let text = if *u as usize >= self.progs.len() { format!("operand pool; every accepted call of {}", kernel_items()[*u as usize - self.progs.len()]) } else { self.progs[*u as usize].iter().map(|i| self.al[*i].text).collect::<Vec<_>>().join(" ; ").replace('\n', " ") };
        rep.out.failures.push(Failure { key: "C19|process-dependent|snapshots".into(), case: text, detail: "the snapshots after 0..n steps differ between two processes".into(), payload: "p0".into(), unit: *u });
      } }
    }
    // the second pass re-runs the same units: halve the counters so that evaluations count programs once
    rep.out.evaluations /= 2; rep.out.nontrivial /= 2;
    let steps_per_prog = tier.pick(2u64, 3u64);
    rep.cov("states", json!(rep.out.nontrivial * (steps_per_prog + 1)));
    rep.cov("transitions", json!(rep.out.nontrivial * (steps_per_prog * 2 + steps_per_prog)));
    rep.cov("traces_validated_against_impl", json!(rep.out.nontrivial));
    rep.cov("programs_compared_across_processes", json!(cross));
    rep.cov("bounds", json!({"programs": n, "alphabet": self.al.len(), "max_statements": tier.pick(3, 4), "max_steps": steps_per_prog}));
    rep.rule = format!("{} programs = every dependency-respecting sequence of up to {} statements from a {}-statement alphabet (defines of every value class: arithmetic, matrix of variables, slices, ranges, sets and comprehensions, tables and columns, records, conversions, strings, user function, match, state machine, joins; mutable defines and = += *= indexed assignments); \
      for each: snapshots after 0..{} single step(0,1) calls, the same in a second interpreter, step(0,n) in a fresh interpreter, everything repeated in a second worker process; a state is a snapshot, a transition a step call; evaluations = programs; non-trivial = programs whose statements all evaluated", n, tier.pick(3, 4), self.al.len(), steps_per_prog);
    rep.assumptions = vec!["programs containing a statement that fails are not stepped (counted)".into(), "what re-evaluation should compute for programs with assignment is not judged, only determinism and n-singles = one-n".into(), "states/transitions are snapshots and step calls on the real interpreter; there is no separate model".into()];
    let stepped = rep.out.sets.get("stdlib_functions_stepped").map(|s| s.len()).unwrap_or(0);
    rep.cov("stdlib_family", json!({"functions_registered_plus_operator_forms": nf, "functions_with_an_accepted_call": stepped, "operand_pool": KERNEL_POOL.iter().map(|p| p.1).collect::<Vec<_>>(),
      "calls": "every call f(x), f(x,y) over the pool and f(x,y,z) over the numeric operands that evaluates; pure and with two assignments appended"}));
    if stepped < 60 { rep.vacuity.push(format!("only {} standard-library functions had an accepted call", stepped)); }
    if rep.out.nontrivial < 200 { rep.vacuity.push("too few programs evaluated".into()); }
  }
}
