//! C02 — precedence and left associativity. unit = one operator sequence (k operators);
//! inside: operand vectors, one-operand decorations (unary -, !, transpose), all explicit groupings.
use super::*;
use crate::pool::*;
use crate::report::Report;
use crate::subject::*;
use serde_json::json;

pub const OPS: [&str; 15] = ["+", "-", "*", "/", "%", "^", "==", "!=", "<", "<=", ">", ">=", "&&", "||", "⊕"];
/// subset used for the deepest level of each tier
pub const SUB: [&str; 7] = ["+", "-", "*", "/", "^", "<", "&&"];

pub fn level(op: &str) -> u8 {
  match op { "&&" | "||" | "⊕" => 1, "==" | "!=" | "<" | "<=" | ">" | ">=" => 2, "+" | "-" => 3, "*" | "/" | "%" | "**" => 4, "^" => 5, _ => 0 }
}
pub fn class(op: &str) -> &'static str {
  if op == "**" { return "matmul"; }
  match level(op) { 1 => "logic", 2 => "cmp", 3 => "add", 4 => "mul", 5 => "pow", _ => "?" }
}

#[derive(Clone, Debug)]
pub enum E { Var(String), Un(&'static str, Box<E>), Bin(&'static str, Box<E>, Box<E>) }

impl E {
  pub fn full(&self) -> String {
    match self {
      E::Var(v) => v.clone(),
      E::Un("'", e) => format!("({}')", e.full()),
      E::Un(op, e) => format!("({}{})", op, e.full()),
      E::Bin(op, l, r) => format!("({} {} {})", l.full(), op, r.full()),
    }
  }
}

/// the harness's own reading of the statement: precedence climbing, left associative at every level
pub fn reference_tree(operands: &[E], ops: &[&'static str]) -> E {
  fn climb(operands: &[E], ops: &[&'static str], pos: &mut usize, min: u8) -> E {
    let mut lhs = operands[*pos].clone();
    while *pos < ops.len() && level(ops[*pos]) >= min {
      let op = ops[*pos];
      *pos += 1;
      let rhs = climb(operands, ops, pos, level(op) + 1);
      lhs = E::Bin(op, Box::new(lhs), Box::new(rhs));
    }
    lhs
  }
  let mut p = 0;
  climb(operands, ops, &mut p, 0)
}

/// all binary trees over the operands in order (Catalan)
pub fn groupings(operands: &[E], ops: &[&'static str]) -> Vec<E> {
  if operands.len() == 1 { return vec![operands[0].clone()]; }
  let mut out = vec![];
  for split in 0..ops.len() {
    let ls = groupings(&operands[..=split], &ops[..split]);
    let rs = groupings(&operands[split + 1..], &ops[split + 1..]);
    for l in &ls { for r in &rs { out.push(E::Bin(ops[split], Box::new(l.clone()), Box::new(r.clone()))); } }
  }
  out
}

pub struct C02 { tier: Tier }
impl C02 {
  pub fn new(tier: Tier) -> C02 { C02 { tier } }
  /// (list of operator sequences)
  pub fn sequences(tier: Tier) -> Vec<Vec<&'static str>> {
    let mut v: Vec<Vec<&'static str>> = vec![];
    let full_k = tier.pick(3, 3);
    for k in 1..=full_k {
      let n = 15usize.pow(k as u32);
      for i in 0..n { let mut s = vec![]; let mut x = i; for _ in 0..k { s.push(OPS[x % 15]); x /= 15; } v.push(s); }
    }
    // chains that contain the matrix-multiply operator (same level as * / %): every sequence of 2..3 operators over
    // {**, *, /, +, -, ^} with at least one **; operands are 2x2 matrices so that every grouping is well-typed
    let mops = ["**", "*", "/", "+", "-", "^"];
    for k in 2..=tier.pick(2usize, 3usize) {
      let n = mops.len().pow(k as u32);
      for i in 0..n { let mut s = vec![]; let mut x = i; for _ in 0..k { s.push(mops[x % mops.len()]); x /= mops.len(); } if s.contains(&"**") { v.push(s); } }
    }
    if tier == Tier::Thorough {
      // k = 4 over the 7-operator subset (one operator per level plus -, /)
      let n = 7usize.pow(4);
      for i in 0..n { let mut s = vec![]; let mut x = i; for _ in 0..4 { s.push(SUB[x % 7]); x /= 7; } v.push(s); }
    }
    v
  }
}

const NUMS: [[&str; 5]; 3] = [["2", "3", "5", "7", "4"], ["5", "2", "3", "2", "7"], ["0.5", "-7", "2", "0", "3"]];
const BOOLS: [[&str; 5]; 3] = [["true", "false", "true", "false", "true"], ["false", "true", "true", "false", "false"], ["true", "true", "false", "true", "false"]];

fn flat(operand_txt: &[String], ops: &[&'static str]) -> String {
  let mut s = operand_txt[0].clone();
  for (i, op) in ops.iter().enumerate() { s.push_str(&format!(" {} {}", op, operand_txt[i + 1])); }
  s
}

/// which operand positions are Boolean: those whose parent operator in the reference tree is a logic operator
fn bool_positions(ops: &[&'static str]) -> Vec<bool> {
  let operands: Vec<E> = (0..=ops.len()).map(|i| E::Var(format!("{}", i))).collect();
  let t = reference_tree(&operands, ops);
  let mut out = vec![false; ops.len() + 1];
  fn walk(e: &E, parent_logic: bool, out: &mut Vec<bool>) {
    match e {
      E::Var(v) => { out[v.parse::<usize>().unwrap()] = parent_logic; }
      E::Un(_, x) => walk(x, parent_logic, out),
      E::Bin(op, l, r) => { let lg = level(op) == 1; walk(l, lg, out); walk(r, lg, out); }
    }
  }
  walk(&t, false, &mut out);
  out
}

fn stepwise(e: &E, stmts: &mut Vec<String>, n: &mut usize) -> String {
  match e {
    E::Var(v) => v.clone(),
    E::Un("'", x) => { let a = stepwise(x, stmts, n); *n += 1; let t = format!("t{}", n); stmts.push(format!("{} := {}'", t, a)); t }
    E::Un(op, x) => { let a = stepwise(x, stmts, n); *n += 1; let t = format!("t{}", n); stmts.push(format!("{} := {}{}", t, op, a)); t }
    E::Bin(op, l, r) => {
      let a = stepwise(l, stmts, n);
      let b = stepwise(r, stmts, n);
      *n += 1;
      let t = format!("t{}", n);
      stmts.push(format!("{} := {} {} {}", t, a, op, b));
      t
    }
  }
}

impl UnitRunner for C02 {
  fn unit(&mut self, _payload: &str, unit: u64, out: &mut WorkerOut) {
    if _payload == "resolve" { return resolve_unit(unit, out); }
    let seqs = C02::sequences(self.tier);
    let ops = &seqs[unit as usize];
    let k = ops.len();
    let bp = bool_positions(ops);
    let classes: Vec<&str> = ops.iter().map(|o| class(o)).collect();
    let nvec = if self.tier == Tier::Quick && k >= 3 { 1 } else { self.tier.pick(2, 3) };
    for vec_i in 0..nvec {
      // decorations: None, or (position, kind)
      let mut decos: Vec<Option<(usize, &'static str)>> = vec![None];
      if vec_i == 0 && k <= self.tier.pick(2, 3) {
        for p in 0..=k { if bp[p] { decos.push(Some((p, "!"))); } else { decos.push(Some((p, "-"))); decos.push(Some((p, "'"))); } }
      }
      for deco in decos {
        let mut s = Session::new();
        let mut defs = vec![];
        let mut names = vec![];
        for p in 0..=k {
          let name = if bp[p] { format!("p{}", p) } else { format!("n{}", p) };
          let val = if bp[p] { BOOLS[vec_i][p].to_string() } else { NUMS[vec_i][p].to_string() };
          let has_mm = ops.contains(&"**");
          let def = match deco {
            _ if has_mm && !bp[p] => { let v: f64 = val.parse().unwrap(); format!("{} := [{} {}; {} {}]", name, v, v + 1.0, v + 3.0, v + 7.0) }
            Some((dp, "'")) if dp == p => { let v: f64 = val.parse().unwrap(); format!("{} := [{} {}; {} {}]", name, v, v + 1.0, v + 2.0, v + 3.0) }
            _ => format!("{} := {}", name, val),
          };
          s.run(&def);
          defs.push(def);
          names.push(name);
        }
        let operands_e: Vec<E> = names.iter().enumerate().map(|(p, n)| match deco {
          Some((dp, d)) if dp == p => E::Un(d, Box::new(E::Var(n.clone()))),
          _ => E::Var(n.clone()),
        }).collect();
        let operand_txt: Vec<String> = names.iter().enumerate().map(|(p, n)| match deco {
          Some((dp, "'")) if dp == p => format!("{}'", n),
          Some((dp, d)) if dp == p => format!("{}{}", d, n),
          _ => n.clone(),
        }).collect();
        let e_flat = flat(&operand_txt, ops);
        let e_ref = reference_tree(&operands_e, ops).full();
        out.evaluations += 1;
        let src_flat = format!("r1 := {}", e_flat);
        if parse_cached(&src_flat).is_none() { out.count("flat_formula_unparsable"); out.set("unparsable_examples", &e_flat); continue; }
        let o1 = s.run(&src_flat);
        let o2 = s.run(&format!("r2 := {}", e_ref));
        let dk = match deco { Some((_, "-")) => "-neg", Some((_, "!")) => "-not", Some((_, "'")) => "-transpose", _ => "" };
        let case = format!("{}; r := {}  vs  r := {}", defs.join("; "), e_flat, e_ref);
        let same = match (&o1, &o2) {
          (Outcome::Value(a), Outcome::Value(b)) => { out.nontrivial += 1; a == b }
          (Outcome::Error(_), Outcome::Error(_)) => { out.count("both_rejected"); true }
          (Outcome::ParseError, _) | (_, Outcome::ParseError) => { out.count("parenthesised_unparsable"); false }
          _ => false,
        };
        if !same {
          out.fail(format!("C02|grouping-differs|{}{}", classes.join("-"), dk), case.clone(), format!("unparenthesised -> {} ; documented grouping -> {}", o1.short(), o2.short()));
        }
        if deco.is_none() && vec_i == 0 && unit % 211 == 0 { out.sample(json!({"formula": e_flat, "documented_grouping": e_ref, "operands": defs, "value": o1.short()})); }
        // every explicit grouping: parentheses override, compared with step-by-step evaluation through temporaries
        let do_groupings = deco.is_none() && (k <= 2 || (k == 3 && (self.tier == Tier::Thorough || ops.iter().all(|o| SUB.contains(o)))));
        if do_groupings && k >= 2 {
          let gs = groupings(&operands_e, ops);
          let mut vals = vec![];
          for (gi, g) in gs.iter().enumerate() {
            out.evaluations += 1;
            let mut s2 = Session::new();
            for d in &defs { s2.run(d); }
            let og = s2.run(&format!("r := {}", g.full()));
            let mut stmts = vec![];
            let mut n = 0;
            let last = stepwise(g, &mut stmts, &mut n);
            let mut ostep = Outcome::Error("no-steps".into());
            for st in &stmts { ostep = s2.run(st); if !ostep.is_value() { break; } }
            let ok = match (&og, &ostep) {
              (Outcome::Value(a), Outcome::Value(b)) => { out.nontrivial += 1; a == b }
              (Outcome::Error(_), Outcome::Error(_)) => true,
              _ => false,
            };
            if !ok {
              out.fail(format!("C02|paren-ignored|{}", classes.join("-")), format!("{}; r := {}  vs  {}", defs.join("; "), g.full(), stmts.join("; ")),
                format!("parenthesised -> {} ; step by step -> {}", og.short(), ostep.short()));
            }
            vals.push(og);
            let _ = (gi, &last);
          }
          let distinct: std::collections::BTreeSet<String> = vals.iter().map(|v| if v.is_value() { v.short() } else { "rejected".to_string() }).collect();
          if distinct.len() >= 2 { out.count("sequences_where_groupings_differ"); if k == 2 { out.set("discriminated_level_pairs", &format!("{}-{}", classes[0], classes[1])); } }
        }
      }
    }
  }
}

impl Check for C02 {
  fn id(&self) -> &'static str { "C02" }
  fn level(&self) -> &'static str { "exploration" }
  fn unit_budget(&self, _t: Tier) -> Duration { Duration::from_secs(60) }
  fn drive(&mut self, tier: Tier, cfg: &PoolCfg, rep: &mut Report) {
    let n = C02::sequences(tier).len() as u64;
    rep.rule = format!("every sequence of 1..3 of the 15 binary operators{} = {} sequences; per sequence {} operand vectors (operands typed Boolean where the documented grouping feeds a logic operator), \
      plus for short sequences every single-operand decoration (unary -, !, transpose) and every explicit grouping (Catalan) evaluated whole and step by step; \
      evaluations = formula pairs compared; non-trivial = pairs where both sides produced a value (ill-typed chains must merely fail alike)",
      if tier == Tier::Thorough { " plus every 4-operator sequence over {+,-,*,/,^,<,&&}" } else { "" }, n, tier.pick(2, 3));
    rep.assumptions = vec!["operators are written with blanks on both sides; matrix/set/table/range operators are not part of the chains".into()];
    rep.cov("bounds", json!({"sequences": n, "operators": OPS}));
    let mut jobs = range_jobs("", n, 4);
    jobs.extend(range_jobs("resolve", RESOLVE_OPS.len() as u64 * RESOLVE_OPS.len() as u64, 6));
    drive_ranges(cfg, rep, jobs);
    let pairs = rep.out.sets.get("discriminated_level_pairs").map(|s| s.len()).unwrap_or(0);
    if pairs < 18 { rep.vacuity.push(format!("only {} of the 25 level pairs had groupings with different values", pairs)); }
  }
}

pub const RESOLVE_OPS: [&str; 6] = ["+", "-", "*", "/", "^", "%"];

/// A chain of two (and, with a third fixed operator, three) operators over a mutable operand, the operand reassigned, the plan re-solved
/// once: the formula must then have the value of the same formula over the new operand (or still the old one) - the grouping a formula
/// was parsed with holds every time it is evaluated, not only the first.
fn resolve_unit(unit: u64, out: &mut WorkerOut) {
  let n = RESOLVE_OPS.len() as u64;
  let (o1, o2) = (RESOLVE_OPS[(unit / n) as usize % RESOLVE_OPS.len()], RESOLVE_OPS[(unit % n) as usize]);
  let consts = ["7", "2", "3", "5"];
  let fresh = |text: &str| -> Option<crate::canon::Canon> { let mut s = Session::new(); match s.run(&format!("y := {}", text)) { Outcome::Value(_) => s.get("y"), _ => None } };
  for third in [None, Some("-"), Some("*")] {
    let nops = if third.is_some() { 3 } else { 2 };
    for pos in 0..=nops {
      for (v0, v1) in [("4", "9"), ("6", "1")] {
        let ops: Vec<&str> = match third { Some(t) => vec![o1, o2, t], None => vec![o1, o2] };
        let render = |mval: &str| -> String { let mut t = String::new(); let mut ci = 0; for i in 0..=nops { let operand = if i == pos { mval.to_string() } else { let c = consts[ci % consts.len()]; ci += 1; c.to_string() }; if i > 0 { t.push_str(&format!(" {} ", ops[i - 1])); } t.push_str(&operand); } t };
        let chain = render("m");
        let (want_old, want_new) = (fresh(&render(v0)), fresh(&render(v1)));
        let (Some(want_old), Some(want_new)) = (want_old, want_new) else { out.count("resolve_chain_not_evaluable"); continue; };
        let mut s = Session::new();
        out.evaluations += 1;
        if !s.run(&format!("~m := {}", v0)).is_value() || !s.run(&format!("y := {}", chain)).is_value() { out.count("resolve_setup_rejected"); continue; }
        let case = format!("~m := {} ; y := {} ; m = {} ; step(0,1)", v0, chain, v1);
        let locus = format!("{}-{}{}:operand-{}", class(o1), class(o2), third.map(|t| format!("-{}", class(t))).unwrap_or_default(), pos);
        if s.get("y").as_ref() != Some(&want_old) { out.fail(format!("C02|resolve-first-value|{}", locus), case, format!("with literals {:?}, with the mutable operand {:?}", want_old.short(), s.get("y").map(|c| c.short()))); continue; }
        if !s.run(&format!("m = {}", v1)).is_value() { out.count("resolve_assignment_rejected"); continue; }
        match std::panic::catch_unwind(std::panic::AssertUnwindSafe(|| s.intrp.step(0, 1))) {
          Ok(Ok(_)) => {
            out.nontrivial += 1;
            let got = s.get("y");
            // the property itself, after the re-solve: the same history with the formula fully parenthesised by the reference grouping
            let operands: Vec<E> = { let mut ci = 0; (0..=nops).map(|i| if i == pos { E::Var("m".into()) } else { let c = consts[ci % consts.len()]; ci += 1; E::Var(c.to_string()) }).collect() };
            let ops_static: Vec<&'static str> = ops.iter().map(|o| RESOLVE_OPS.iter().find(|r| *r == o).copied().unwrap_or("-")).collect();
            let paren = reference_tree(&operands, &ops_static).full();
            let mut s2 = Session::new();
            if s2.run(&format!("~m := {}", v0)).is_value() && s2.run(&format!("y := {}", paren)).is_value() && s2.run(&format!("m = {}", v1)).is_value() {
              if let Ok(Ok(_)) = std::panic::catch_unwind(std::panic::AssertUnwindSafe(|| s2.intrp.step(0, 1))) {
                let g2 = s2.get("y");
                if g2 != got { out.fail(format!("C02|grouping-differs-after-resolve|{}", locus), format!("{}   versus y := {}", case, paren), format!("unparenthesised: {:?}, parenthesised by the documented grouping: {:?}", got.as_ref().map(|c| c.short()), g2.map(|c| c.short()))); }
                else { out.count("resolve_grouping_agrees"); }
              }
            }
            if got.as_ref() == Some(&want_new) { out.count("resolve_recomputed"); }
            else if got.as_ref() == Some(&want_old) { out.count("resolve_kept_old_value"); }
            else { out.fail(format!("C02|regrouped-after-resolve|{}", locus), case, format!("the formula over m = {} is {}, over m = {} it is {}; after the re-solve y holds {:?}", v0, want_old.short(), v1, want_new.short(), got.map(|c| c.short()))); }
          }
          Ok(Err(_)) => out.count("resolve_step_rejected"),
          Err(e) => out.fail(format!("C02|panic|resolve:{}", locus), case, crate::subject::panic_msg(e)),
        }
      }
    }
  }
}
