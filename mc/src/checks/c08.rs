//! C08 — formatting a program does not change what it means.
//! unit = a chunk of programs; each: parse, format, re-parse, compare the trees up to source positions, format again.
use super::*;
use crate::pool::*;
use crate::report::Report;
use crate::subject::*;
use mech_syntax::formatter::Formatter;
use mech_syntax::parser;
use serde_json::json;
use std::panic::{catch_unwind, AssertUnwindSafe};

/// The syntax tree as a JSON value with every source position removed and tokens reduced to (kind, text).
pub fn tree_value(t: &mech_core::nodes::Program) -> serde_json::Value {
  fn walk(v: serde_json::Value) -> serde_json::Value {
    use serde_json::Value as J;
    match v {
      J::Object(m) => {
        if m.contains_key("kind") && m.contains_key("chars") && m.contains_key("src_range") {
          let text: String = m["chars"].as_array().map(|a| a.iter().filter_map(|c| c.as_str()).collect()).unwrap_or_default();
          let kind = m["kind"].as_str().map(|s| s.to_string()).unwrap_or_else(|| m["kind"].to_string());
          // padding around prose text (table cells, list items, line ends) is insignificant whitespace
          let text = if kind == "Text" { text.trim().to_string() } else { text };
          return J::String(format!("{}:{}", kind, text));
        }
        J::Object(m.into_iter().filter(|(k, _)| k != "src_range" && k != "error_range").map(|(k, v)| (k, walk(v))).collect())
      }
      // a prose element holding nothing but blanks (the padding of a table cell after a link, ...) is insignificant whitespace
      J::Array(a) => J::Array(a.into_iter().map(walk).filter(|x| !(x.as_object().map(|m| m.len() == 1 && m.get("Text").and_then(|t| t.as_str()) == Some("Text:")).unwrap_or(false))).collect()),
      o => o,
    }
  }
  walk(serde_json::to_value(t).unwrap_or(serde_json::Value::Null))
}

/// the kinds of the top-level elements of a tree ("Mika+MechCode"), used to name a finding
pub fn element_kinds(v: &serde_json::Value) -> String {
  let mut ks = std::collections::BTreeSet::new();
  if let Some(secs) = v["body"]["sections"].as_array() { for s in secs { if let Some(els) = s["elements"].as_array() { for e in els { match e { serde_json::Value::Object(m) => { for k in m.keys() { ks.insert(k.clone()); } } serde_json::Value::String(x) => { ks.insert(x.clone()); } _ => {} } } } } }
  ks.into_iter().collect::<Vec<_>>().join("+")
}

pub fn shape_of(t: &mech_core::nodes::Program) -> String { serde_json::to_string_pretty(&tree_value(t)).unwrap_or_default() }
pub fn norm_tree(t: &mech_core::nodes::Program) -> String { shape_of(t) }

/// the names of the nodes enclosing the first differing line
fn first_difference(a: &str, b: &str) -> String {
  let (al, bl): (Vec<&str>, Vec<&str>) = (a.lines().collect(), b.lines().collect());
  let k = al.iter().zip(bl.iter()).take_while(|(x, y)| x == y).count();
  let mut ctx: Vec<String> = vec![];
  let mut indent = al.get(k).or(al.last()).map(|l| l.len() - l.trim_start().len()).unwrap_or(0);
  for l in al[..k.min(al.len())].iter().rev() {
    let ind = l.len() - l.trim_start().len();
    if ind < indent { indent = ind; if let Some(name) = l.trim().strip_prefix('"').and_then(|r| r.split('"').next()) { if name.chars().next().map(|c| c.is_uppercase()).unwrap_or(false) { ctx.push(name.to_string()); if ctx.len() == 3 { break; } } } }
  }
  ctx.reverse();
  ctx.join("/")
}

pub fn program_corpus(tier: Tier) -> Vec<(String, &'static str)> {
  let mut v: Vec<(String, &'static str)> = vec![];
  let mut push = |s: String, f: &'static str, v: &mut Vec<(String, &'static str)>| v.push((s, f));
  // literal forms
  for l in ["1", "1.5", ".5", "1.5e3", "0xff", "0b101", "0o17", "0d9", "255u8", "5f32", "1/3", "2+3i", "3i", "-5", "\"str\"", "\"\"", "true", "false", ":atom", "_", "✓", "✗", "1_000"] { push(format!("x := {}", l), "literal", &mut v); push(l.to_string(), "bare-literal", &mut v); }
  // matrix literals of every shape up to 3x3 with several element forms
  for r in 1..=3usize { for c in 1..=3usize { for (ef, f) in [("{n}", "num"), ("-{n}", "neg"), ("\"s{n}\"", "str"), ("a", "var"), ("({n} + 1)", "paren")] {
    let vals: Vec<String> = (0..r * c).map(|i| ef.replace("{n}", &format!("{}", i + 1))).collect();
    push(format!("x := {}", super::c01::matrix_literal(&vals, r, c)), "matrix-literal", &mut v);
    let _ = f;
  } } }
  push("x := [1 2; 3 4]'".into(), "transpose", &mut v);
  push("x := [[1 2] 3]".into(), "nested-matrix", &mut v);
  // structures
  for s in ["x := {1,2,3}", "x := {}", "x := {\"a\", \"b\"}", "x := (1, 2)", "x := (1, \"s\", true)", "x := {a: 1, b: \"s\"}", "x := {a<f64>: 1, b<string>: \"s\"}", "x := {\"a\": 1, \"b\": 2}", "x := | a<f64> b<f64> | 1 2 | 3 4 |", "x := | a<u8> | 1 |", "x := {y * 2 | y <- {1,2,3}}", "x := {y | y <- {1,2,3}, y > 1}", "x := {(a, b) | a <- {1,2}, b <- {3}}"] { push(s.to_string(), "structure", &mut v); }
  // formulas: every binary operator, unary operators, parentheses, nesting
  for op in ["+", "-", "*", "/", "%", "^", "==", "!=", "<", "<=", ">", ">=", "&&", "||", "⊕", "**", "·", "∪", "∩", "∖", "Δ", "⊆", "⊇", "⊊", "⊋", "∈", "∉", "⋈", "⟕", "⟖", "⟗", "⋉", "▷"] {
    push(format!("x := a {} b", op), "binary-operator", &mut v);
    push(format!("x := a {} b {} c", op, op), "operator-chain", &mut v);
    push(format!("x := (a {} b) {} c", op, op), "paren-left", &mut v);
    push(format!("x := a {} (b {} c)", op, op), "paren-right", &mut v);
  }
  for a in ["+", "*", "^", "<", "&&"] { for b in ["+", "*", "^", "<", "&&"] { push(format!("x := a {} b {} c", a, b), "mixed-chain", &mut v); push(format!("x := (a {} b) {} c", a, b), "mixed-paren", &mut v); push(format!("x := a {} (b {} c)", a, b), "mixed-paren", &mut v); push(format!("x := ((a {} b) {} (c {} d)) {} e", a, b, a, b), "nested-paren", &mut v); } }
  for s in ["x := -a", "x := !a", "x := a'", "x := -(a + b)", "x := !(a && b)", "x := (a + b)'", "x := ((1))", "x := ((1, 2))", "x := (a)", "x := ((a + b) * (c + d)) ^ 2", "x := -a ^ 2", "x := 1..5", "x := 1..=5", "x := 1..2..10", "x := a..b", "x := (a + 1)..=(b * 2)"] { push(s.to_string(), "unary-range-paren", &mut v); }
  for (o1, o2) in [("..", ".."), ("..", "..="), ("..=", ".."), ("..=", "..=")] { for (a, st, b) in [("1", "2", "10"), ("a", "s", "b"), ("(a + 1)", "(s * 2)", "(b - 1)"), ("10", "-2", "1")] { push(format!("x := {}{}{}{}{}", a, o1, st, o2, b), "stepped-range", &mut v); push(format!("x := y[{}{}{}{}{}]", a, o1, st, o2, b), "stepped-range", &mut v); } }
  // subscripts
  for i in ["1", "1,2", ":", "1,:", ":,2", "[1 2]", "[1 2],[2 1]", "1..=2", "1..=2,:", "a", "a,b", "[true false]", "a + 1"] { push(format!("x := y[{}]", i), "subscript", &mut v); push(format!("y[{}] = 5", i), "subscript-assign", &mut v); }
  for s in ["x := y.a", "x := y.1", "x := y.a.b", "x := y.a[1]", "x := y{1}", "y.a = 5", "y += 1", "y -= 1", "y *= 2", "y /= 2", "y[1] += 1", "~y := 5", "y = 6", "(a, b) := (1, 2)", "x<u8> := 5", "x<[u8]> := [1 2]", "x<[f64]:2,3> := y", "x<{f64}> := y", "x<f64?> := 1", "x<(f64,string)> := y", "~x<u8> := 1"] { push(s.to_string(), "statement", &mut v); }
  // calls
  for s in ["x := math/sin(1)", "x := math/atan2(1, 2)", "x := stats/sum/column([1 2; 3 4])", "x := f(a)", "x := f(a, b)", "x := f(g(a))", "x := set/size({1,2})", "x := f(x: 1, y: 2)", "x := table/join(a, b)"] { push(s.to_string(), "call", &mut v); }
  // definitions
  for s in ["f(n<f64>) => <f64>\n  ├ 0 => 10\n  └ n => n * 2.", "g(x<f64>, y<f64>) => <f64>\n  ├ (0, *) => 100\n  └ (x, y) => x + y.", "h(v<[f64]>) => <f64>\n  ├ [a] => a\n  └ [a b ...] => a + b.", "k(i<f64>) = z<f64> := m := [10 20 30]; z := m[i].",
            "<color> := :red | :green", "<temp> := <f64>", "x<color> := :red",
            "y := x?\n  | 1 => 10\n  | * => 0.", "y := x?\n  | n, n > 5 => 1\n  | * => 0.", "y := x? | 1 => 10 | * => 0.", "y := x?\n  | 1 => 10.\nz := 2", "y := x?\n  | (a, b), a > b => a\n  | (b, a) => a * 10\n  | * => 0.", "y := x?\n  | 1 => z?\n    | 1 => 7.\n  | * => 0.", "y := x?\n  | [a ...] => a\n  | * => 0.", "y := x?\n  | :red => 1\n  | :green => 2.",
            "#C(n<u64>) => <u64>\n  ├ :A(n<u64>)\n  └ :D(n<u64>).\n\n#C(n<u64>) -> :A(n)\n  :A(n)\n    ├ n > 0u64 -> :A(n - 1u64)\n    └ n == 0u64 -> :D(0u64)\n  :D(n) => n.\n\n#C(5u64)",
            "#C(n<u64>) => <u64>\n  ├ :A(n<u64>)\n  └ :D(n<u64>).\n\n#C(n<u64>) -> :A(n)\n  :A(n) ~> :D(n)\n  :D(n) => n.\n\nr := #C(1u64)"] { push(s.to_string(), "definition", &mut v); }
  // several statements, separators, comments
  for s in ["x := 1\ny := 2", "x := 1; y := 2", "x := 1\n\ny := x + 1\n\nz := [x y]", "x := 1 -- a comment", "x := 1 // a comment", "-- only a comment", "// only a comment", "x := 1\n-- between\ny := 2", "x := [1 2 3] -- trailing", "x := 1;"] { push(s.to_string(), "statements-comments", &mut v); }
  // mechdown
  for (_n, p) in super::c10::PROSE.iter() { push(format!("x := 1\n\n{}\n\ny := 2", p), "mechdown", &mut v); push(p.to_string(), "mechdown-alone", &mut v); }
  for s in ["```mech\nx := 1\n```", "```mech:alpha\nx := 1\ny := 2\n```", "```mech:disabled\nx := 1\n```", "A paragraph with {{x}} inline.", "Title\n=====\n\n1. Section\n----------\n\nText.\n\nx := 1"] { push(s.to_string(), "mechdown-fence", &mut v); }
  // programs of the other checks (every operator arm, index form, assignment form ...)
  for p in super::c06::programs(Tier::Quick).into_iter().step_by(tier.pick(7, 2)) { push(p.text, "c06-program", &mut v); }
  for st in super::c19::alphabet() { push(st.text.to_string(), "c19-statement", &mut v); }
  for st in super::c05::alphabet() { push(st.text, "c05-statement", &mut v); }
  for c in super::c16::cases(Tier::Quick).into_iter().step_by(tier.pick(5, 1)) { if !c.def.is_empty() { push(c.def.clone(), "c16-definition", &mut v); } if let Some((call, _)) = c.calls.get(0) { push(call.clone(), "c16-call", &mut v); } }
  for m in super::c17::machines(Tier::Quick).into_iter().step_by(tier.pick(9, 2)) { push(super::c17::render(&m, "3u64"), "c17-machine", &mut v); }
  for m in super::c17::vmachines(Tier::Quick).into_iter().step_by(tier.pick(9, 2)) { push(super::c17::vrender(&m, 2), "c17-vector-machine", &mut v); }
  // kind annotations: every kind form on a definition, a function argument and a table field
  let kinds = ["f64", "u8", "string", "bool", "[f64]", "[u8]:2,3", "[f64]:_,3", "[f64]:3", "{f64}", "{f64}:3", "f64?", "[f64]?", "(f64,string)", "(f64, (u8, bool))", "{a<f64>,b<string>}", "{string:f64}", "|a<f64> b<u8>|", "|a<f64>|:3", ":ok", "*", "_", "<f64>", "color", "[color]", "(color, f64)", "[[f64]]", "{{f64}}", "c64", "r64", "[string]:1,2"];
  for k in kinds { push(format!("x<{}> := y", k), "kind-annotation", &mut v); push(format!("~x<{}> := y", k), "kind-annotation", &mut v); push(format!("f(a<{}>) => <{}>\n  └ a => a.", k, k), "kind-annotation", &mut v); push(format!("g(a<{}>) = r<{}> := r := a.", k, k), "kind-annotation", &mut v); push(format!("<t> := <{}>", k), "kind-define", &mut v); push(format!("y := x<{}>", k), "kind-annotation", &mut v); }
  // strings and atoms
  for l in ["\"a b\"", "\"a\\\"b\"", "\"tab\\tq\"", "\"new\\nline\"", "\"üñí\"", "\"😀\"", "\"  padded  \"", "\"a;b\"", "\"a -- b\"", "\"{x}\"", "\"[1 2]\"", ":a", ":a1", ":some(1)", ":some(1, 2)", ":ok(:inner(3))", ":color/red", "`a`"] { push(format!("x := {}", l), "string-atom", &mut v); push(format!("x := [{} {}]", l, l), "string-atom", &mut v); push(format!("x := ({}, {})", l, l), "string-atom", &mut v); push(format!("x := {{{}}}", l), "string-atom", &mut v); }
  // structures over several lines and in every spelling
  for s in ["x := [1 2\n      3 4]", "x := [1, 2; 3, 4]", "x := [1,2,3]", "x := [\n  1 2\n  3 4\n]", "x := [1 2 3]'", "x := []", "x := [[1 2]; [3 4]]", "x := [a b; c d] + [1 2; 3 4]", "x := [1 -2]", "x := [1 - 2]", "x := [-1 -2; -3 -4]", "x := [a' b']", "x := [a[1] a[2]]", "x := [f(1) f(2)]", "x := [1..3]", "x := [(1..3)]",
            "x := {\n  a: 1\n  b: 2\n}", "x := {a: 1, b: {c: 2, d: [1 2]}}", "x := {a: (1, 2), b: {1, 2}}", "x := {a<u8>: 1}", "x := {\"k\": {\"j\": 1}}", "x := {1: \"a\", 2: \"b\"}", "x := {:a: 1}",
            "x := |a<f64> b<string>|\n     | 1 \"x\" |\n     | 2 \"y\" |", "x := | a<f64> |\n     | 1 |\n     | 2 |", "x := | a<f64> b<f64> | 1 2 |", "x := | a<[f64]> | [1 2] |", "x := | a<f64> b<f64> | (1 + 1) 2 | 3 (4 * 2) |", "x := | a<f64> | -1 | -2 |", "x := | a<bool> | true | false |", "x := | a<string> | \"p q\" |",
            "x := ╭───────╮\n     │ a<f64> │\n     ├───────┤\n     │ 1 │\n     ╰───────╯",
            "x := {{1,2},{3}}", "x := {(1,2),(3,4)}", "x := {[1 2], [3 4]}", "x := {1..3}", "x := ((1, 2), (3, (4, 5)))", "x := (1,)", "x := ([1 2; 3 4], {1,2}, {a: 1})",
            "x := [y * 2 | y <- a]", "x := [y | y <- a, y > 1]", "x := {y | y <- a, z := y * 2, z > 1}", "x := {(p, q) | (p, q) <- a}", "x := {y | y <- {z | z <- a}}", "x := {y + z | y <- a, z <- b}"] { push(s.to_string(), "structure-layout", &mut v); }
  // subscripts in chains and on every base
  for s in ["x := a[1][2]", "x := a[1,2][1]", "x := a.b.c.d", "x := a.b[1].c", "x := a{1}", "x := a{\"k\"}", "x := a{1}{2}", "x := a.1", "x := a.1.2", "x := a.x,y", "x := a.x,y,z", "x := a[1..3]", "x := a[1..=3, 2]", "x := a[:, 1..2]", "x := a[b > 1]", "x := a[b[1]]", "x := a[f(1)]", "x := a[[1 2; 3 4]]", "x := a[1, [1 2]]", "x := a[end]", "a[1][2] = 3", "a.b.c = 3", "a.b[1] = 3", "a{1} = 3", "a[1, :] = [1 2]", "a[:, 1] = [1; 2]", "a[b > 1] = 0", "a[1..3] = 0", "a.b += 1", "a[1, 2] *= 2", "a[:] = 0", "a[1] ^= 2", "a[1] %= 2"] { push(s.to_string(), "subscript-chain", &mut v); }
  // definitions with larger bodies
  for s in ["f(a<f64>, b<f64>) => <f64>\n  ├ (0, 0) => 0\n  ├ (a, 0) => a\n  ├ (0, b) => b\n  └ (a, b) => a + b.",
            "f(v<[f64]>) => <f64>\n  ├ [] => 0\n  ├ [a] => a\n  ├ [a b] => a + b\n  └ [a ... b] => a * b.",
            "f(t<(f64,f64)>) => <f64>\n  └ (a, b) => a + b.", "f(o<f64?>) => <f64>\n  ├ _ => 0\n  └ a => a.", "f(e<color>) => <f64>\n  ├ :red => 1\n  └ * => 0.", "f(e) => <f64>\n  ├ :some(a) => a\n  └ :none => 0.",
            "f(n<f64>) => <f64>\n  ├ 0 => 1\n  └ n => n * f(n - 1).", "f(n<f64>) => <f64>\n  ├ n, n > 10 => 1\n  ├ n, n > 5 && n < 8 => 2\n  └ * => 3.",
            "g(x<f64>) = (a<f64>, b<f64>) :=\n  a := x + 1\n  b := x * 2.", "g(x<f64>, y<f64>) = z<f64> :=\n  t := x + y\n  z := t * 2.", "g() = z<f64> := z := 1.",
            "<color> := :red | :green | :blue", "<shape> := :circle(f64) | :rect(f64, f64) | :none", "<opt> := :some(<f64>) | :none", "<id> := <u64>", "<point> := <{x<f64>,y<f64>}>", "<pair> := <(f64,f64)>", "<vec> := <[f64]:3>",
            "y := x?\n  | :some(a) => a\n  | :none => 0.", "y := x?\n  | (1, *) => 1\n  | (*, 2) => 2\n  | * => 0.", "y := x?\n  | [1 2] => 1\n  | [a b] => a\n  | * => 0.", "y := x?\n  | \"a\" => 1\n  | \"b\" => 2\n  | * => 0.", "y := x?\n  | true => 1\n  | false => 0.", "y := (x + 1)?\n  | 2 => \"two\"\n  | * => \"other\".", "y := f(x)?\n  | 1 => [1 2]\n  | * => [0 0].", "y := x?\n  | 1 => {a: 1}\n  | * => {a: 0}.", "y := x?\n  | n, n > 1 => n?\n    | 2 => 20\n    | * => 30.\n  | * => 0.", "y := 1 + x?\n  | 1 => 2\n  | * => 3.", "y := [x?\n  | 1 => 2\n  | * => 3.]",
            "#L(n<u64>) => <u64>\n  └ :Only(n<u64>).\n\n#L(n<u64>) -> :Only(n)\n  :Only(n) => n.",
            "#T(n<u64>) => <u64>\n  ├ :Idle\n  ├ :Run(n<u64>)\n  └ :Done(n<u64>).\n\n#T(n<u64>) -> :Idle\n  :Idle -> :Run(n)\n  :Run(k)\n    ├ k > 0u64 -> :Run(k - 1u64)\n    └ * -> :Done(k)\n  :Done(k) => k.",
            "#T(n<u64>) -> :Run(n)\n  -- a comment in the machine\n  :Run(k) -> :Done(k)\n  :Done(k) => k.",
            "#T(a<u64>, b<u64>) -> :S(a, b)\n  :S(p, q)\n    ├ p > q -> :S(p - q, q)\n    ├ q > p -> :S(p, q - p)\n    └ * -> :D(p)\n  :D(p) => p.",
            "#T(v<[u64]>) -> :S(v, 0u64)\n  :S([a ... rest], acc) -> :S(rest, acc + a)\n  :S([], acc) => acc.",
            "#T(n<u64>) -> :A((n, n))\n  :A((p, q)) -> :B(p + q)\n  :B(r) => r.",
            "r := #T(1u64, 2u64)", "r := #T([1u64 2u64])", "r := #T(x) + 1u64", "#T(5u64)"] { push(s.to_string(), "definition-large", &mut v); }
  // operators in every spelling
  // titles with front matter (every key x value form): the repository's documents do not use it
  for d in super::c09::synthetic_documents() { push(d, "front-matter", &mut v); }
  // every operator spelling the expression grammar reads (src/syntax/src/expressions.rs), alone, with a literal operand and in a chain
  for op in ["+", "-", "*", "×", "/", "÷", "%", "^", "**", "\\", "·", "•", "⨯", "!=", "¬=", "≠", "==", "⩵", "=!=", "=¬=", "=:=", "≡", ">", "<", ">=", "≥", "<=", "≤", "||", "∨", "⋁", "&&", "∧", "⋀", "^^", "⊕", "⊻",
    "⋈", "⟕", "⟖", "⟗", "⋉", "▷", "∪", "∩", "∖", "∁", "⊆", "⊇", "⊊", "⊂", "⊋", "⊃", "∈", "∉", "Δ"] {
    push(format!("x := a {} b", op), "operator-spelling-all", &mut v);
    push(format!("x := [1 2] {} (b {} c)", op, op), "operator-spelling-all", &mut v);
    push(format!("x := a {} b + 1", op), "operator-spelling-all", &mut v);
  }
  for (a, b) in [("!=", "≠"), ("!=", "¬="), ("<=", "≤"), (">=", "≥"), ("==", "⩵"), ("&&", "∧"), ("||", "∨"), ("*", "×"), ("/", "÷"), ("!", "¬"), ("⊕", "xor"), ("=>", "⇒"), ("->", "→"), ("<-", "←"), ("∈", "in"), ("**", "⋆")] { push(format!("x := a {} b", a), "operator-spelling", &mut v); push(format!("x := a {} b", b), "operator-spelling", &mut v); let _ = (a, b); }
  for s in ["x := !a", "x := ¬a", "x := -a'", "x := !a && !b", "x := -(-a)", "x := - a", "x := a - -b", "x := a+b", "x := a*b+c", "x := a ^ -b", "x := (-a) ^ b", "x := a ^ b ^ c", "x := (a ^ b) ^ c", "x := a / b / c", "x := a / (b / c)", "x := a - b - c", "x := a - (b - c)", "x := a < b == c", "x := (a < b) == (c > d)", "x := !(a < b)", "x := a && (b || c)", "x := (a && b) || c", "x := a ∪ b ∩ c", "x := (a ∪ b) ∩ c", "x := a ∈ b ∪ c", "x := 2 * (3 + 4) * 5", "x := ((a))", "x := (((a + b)))", "x := (a)(b)"] { push(s.to_string(), "operator-layout", &mut v); }
  // more Mechdown: inline elements, nested lists, blocks in sequence, documents
  for s in ["A paragraph with **strong**, *emphasis*, _underline_, ~strike~ and !!highlight!! words.", "A paragraph with `inline code` and $$x^2$$ inline math.", "See [the docs](https://mech-lang.org) and https://example.org for more.", "A note[^1] and a citation [smith2020] and a section §1.2 reference.", "A paragraph with {x + 1} evaluated and {{y := 2}} shown.", "First paragraph.\n\nSecond paragraph.", "Line one\nline two\nline three.",
            "- a\n- b\n- c", "- a\n  - a1\n  - a2\n- b", "- a\n  - a1\n    - a11\n- b", "1. a\n2. b\n3. c", "3. c\n4. d", "1. a\n  - x\n  - y\n2. b", "- a\n  1. x\n  2. y\n- b", "-[ ] todo\n-[x] done\n-[ ] more", "-(😀) happy\n-(🚀) rocket", "- item with **bold** and `code`\n- item with [link](https://a.b)",
            "> a quote\n> over two lines", "(i)> info\n\n(!)> warning\n\n(*)> idea\n\n(?)> question\n\n(x)> error\n\n(+)> success", "(i)> info with **bold**", ">: a prompt", ">> a floated paragraph", "<< a left float", "***", "Paragraph\n\n***\n\nParagraph",
            "[^1]: a footnote body", "[smith2020]: Smith, A Book (2020)", "![alt text](image.png)", "![alt](image.png){width: \"100\"}", "| ![a](a.png) | ![b](b.png) |",
            "| a | b |\n|:--|--:|\n| 1 | 2 |", "| a | b | c |\n|:-:|---|---|\n| 1 | 2 | 3 |\n| 4 | 5 | 6 |", "| 1 | 2 |\n| 3 | 4 |", "| **a** | `b` |\n|---|---|\n| [l](u) | x |",
            "```\nplain\n  indented\n\nblank above\n```", "```rust\nfn main() {}\n```", "~~~\ntilde\n~~~", "```equation\nx = y\n```", "```diagram\ngraph TD; A-->B;\n```", "```ebnf\na := b, c ;\n```",
            "```mech\nx := 1\ny := x + 1\n```", "```mech:alpha\nx := 1\n```", "```mech:hidden\nx := 1\n```", "```mech:disabled\nx := 1\n```", "```mech {output: false}\nx := 1\n```", "```mech:alpha {output: \"false\"}\nx := 1\n```", "```mech\nx := [1 2; 3 4]\n-- a comment\ny := x'  -- trailing\n```", "```mech\nf(n<f64>) => <f64>\n  ├ 0 => 10\n  └ n => n * 2.\ny := f(2)\n```", "```mec\nx := 1\n```", "```🤖\nx := 1\n```", "~~~mech\nx := 1\n~~~",
            "$$ x = \\frac{1}{2}", "%% an abstract\nover two lines", "%% first\n\nText after.",
            "Title\n=====\n\nIntro paragraph.\n\n1. First\n--------\n\nText one.\n\n(1.1) Sub\n\nText sub.\n\n(1.1.1) Subsub\n\nDeep text.\n\n2. Second\n---------\n\nx := 1\n\nText two.\n\n(2.1) Sub two\n\ny := x + 1",
            "1. S\n----\n\n(1.1) A\n\n(1.1.1) B\n\n(1.1.1.1) C\n\n(1.1.1.1.1) D\n\n(1.2) E\n\nText.", "(1.1.1.1) level five alone", "(1.1.1.1.1) level six alone", "(1.1.1.1.1.1) level seven alone", "(a) lettered heading", "(1.a) mixed heading", "(A.1.b) mixed heading three",
            "- a\n  - b\n    - c\n      - d", "1. a\n  1. b\n    1. c", "-[ ] a\n  -[x] b\n    -[ ] c", "10. ten\n11. eleven", "0. zero\n1. one",
            "1. Only section\n---------------\n\nx := 1", "Title\n=====\n\nx := 1", "(1) Sub without section\n\nx := 1", "1. A\n----\n\n2. B\n----\n\n3. C\n----\n\nx := 1", "1. A\n----\n\n(1.1) a\n\n(1.2) b\n\n2. B\n----\n\n(2.1) c\n\nText.",
            "x := 1\n\nA paragraph.\n\ny := 2\n\n- a list\n\nz := 3", "x := 1 -- c1\ny := 2 // c2\n-- c3\nz := 3", "-- c1\n-- c2\nx := 1", "x := 1\n\n-- a comment after a blank line\n\ny := 2", "--no space", "-- comment with **bold** and `code`", "-- comment with x := 1 inside", "x := 1; y := 2; z := 3", "x := 1;\ny := 2;"] { push(s.to_string(), "mechdown-more", &mut v); }
  // two-level templates: every statement form with every expression form as its right-hand side
  let exprs = ["1", "a", "-a", "a + b", "(a + b) * c", "[1 2; 3 4]", "[a b]", "{1,2}", "(1, 2)", "{p: 1}", "f(a)", "a[1]", "a.b", "1..=3", "a?\n  | 1 => 2\n  | * => 3.", "\"s\"", "a'", "a == b", "!a", "math/sin(a)", "| x<f64> | 1 |", "{y | y <- a}"];
  for e in exprs { for tpl in ["x := {e}", "~x := {e}", "x = {e}", "x += {e}", "x[1] = {e}", "x.f = {e}", "x<f64> := {e}", "y := [{e} {e}]", "y := ({e}, {e})", "y := {{{e}}}", "y := f({e})", "y := z[{e}]", "y := ({e})", "y := -({e})", "y := {e} + {e}", "y := {k: {e}}"] { push(tpl.replace("{e}", e), "two-level", &mut v); } }
  // the repository's own documents: every block (blank-line separated, <= 400 bytes) and every whole file up to 12 KB (quick) / any size (thorough)
  for (path, text) in repo_documents() {
    let stride = tier.pick(3, 1);
    for (bi, b) in text.split("\n\n").enumerate() { let b = b.trim_matches('\n'); if !b.is_empty() && b.len() <= 400 && bi % stride == 0 { push(b.to_string(), "repo-block", &mut v); } }
    if text.len() <= tier.pick(12_000, usize::MAX) { v.push((format!("@file {}\n{}", path, text), "repo-file")); }
  }
  if tier == Tier::Thorough {
    let inner = ["a", "-a", "a + b", "[a b; c d]", "{a, b}", "(a, b)", "{p: a}", "f(a)", "a[1]", "a.b", "a..b", "\"s\"", "a'", "a == b", "| x<f64> | 1 |"];
    let mid = ["({i})", "-({i})", "[{i} {i}]", "[{i}; {i}]", "({i}, {i})", "{{{i}, {i}}}", "{k: {i}}", "f({i})", "f({i}, {i})", "z[{i}]", "z[{i}, {i}]", "{i} + {i}", "({i}) * ({i})", "({i})'", "({i})..({i})", "{y | y <- {i}}", "| q<f64> | {i} |", "({i})?\n  | 1 => {i}\n  | * => {i}."];
    let outer = ["x := {m}", "x = {m}", "x[1] = {m}", "x += {m}", "y := [{m} {m}]", "y := f({m})", "y := ({m}, 1)", "y := {k: {m}}"];
    for i in inner { for m in mid { let mm = m.replace("{i}", i); for o in outer { push(o.replace("{m}", &mm), "three-level", &mut v); } } }
  }
  let mut seen = std::collections::BTreeSet::new();
  v.retain(|(s, _)| seen.insert(s.clone()));
  v
}

pub fn repo_documents() -> Vec<(String, String)> {
  let mut out = vec![];
  fn walk(d: &std::path::Path, out: &mut Vec<(String, String)>) {
    if let Ok(rd) = std::fs::read_dir(d) {
      let mut es: Vec<_> = rd.filter_map(|e| e.ok()).collect(); es.sort_by_key(|e| e.path());
      for e in es { let p = e.path(); if p.is_dir() { let n = p.file_name().and_then(|x| x.to_str()).unwrap_or(""); if n != "target" && n != ".git" { walk(&p, out); } } else if p.extension().and_then(|x| x.to_str()) == Some("mec") {
        if let Ok(s) = std::fs::read_to_string(&p) { out.push((p.to_string_lossy().to_string(), s.replace("\r\n", "\n"))); }
      } }
    }
  }
  walk(std::path::Path::new("/repo"), &mut out);
  out
}

pub const CHUNK: u64 = 16;
pub struct C08 { tier: Tier, ps: Vec<(String, &'static str)> }
impl C08 { pub fn new(tier: Tier) -> C08 { C08 { tier, ps: program_corpus(tier) } } }

impl UnitRunner for C08 {
  fn unit(&mut self, _payload: &str, unit: u64, out: &mut WorkerOut) {
    let lo = (unit * CHUNK) as usize;
    let hi = (lo + CHUNK as usize).min(self.ps.len());
    for (src, fam) in &self.ps[lo..hi] {
      out.evaluations += 1;
      // a whole repository file is named by its path in the findings, not by its text
      let (label, src): (Option<String>, &str) = match src.strip_prefix("@file ") { Some(rest) => { let (p, body) = rest.split_once('\n').unwrap_or((rest, "")); (Some(p.to_string()), body) } None => (None, src.as_str()) };
      let t1 = match catch_unwind(AssertUnwindSafe(|| parser::parse(src))) { Ok(Ok(t)) => t, Ok(Err(_)) => { out.count("source_does_not_parse"); if out.sets.get("unparsable_sources").map(|s| s.len()).unwrap_or(0) < 60 { out.set("unparsable_sources", &label.clone().unwrap_or_else(|| src.chars().take(80).collect::<String>().replace('\n', " ⏎ "))); } continue; } Err(_) => { out.count("parser_panic(C09)"); continue; } };
      out.nontrivial += 1;
      let case = match &label { Some(p) => format!("file {}", p), None => src.replace('\n', " ⏎ ") };
      let f1 = match catch_unwind(AssertUnwindSafe(|| Formatter::new().format(&t1))) { Ok(s) => s, Err(p) => { out.fail(format!("C08|panic|format:{}", fam), case, panic_msg(p).chars().take(140).collect()); continue; } };
      let t2 = match catch_unwind(AssertUnwindSafe(|| parser::parse(&f1))) {
        Ok(Ok(t)) => t,
        Ok(Err(_)) => { out.fail(format!("C08|reparse-fails|{}:{}", fam, element_kinds(&tree_value(&t1))), case, format!("formatted text does not parse: {:?}", f1)); continue; }
        Err(p) => { out.fail(format!("C08|reparse-fails|{}:{}", fam, element_kinds(&tree_value(&t1))), case, format!("parsing the formatted text panics ({}): {:?}", panic_msg(p), f1)); continue; }
      };
      let (n1, n2) = (norm_tree(&t1), norm_tree(&t2));
      if n1 != n2 {
        let at = first_difference(&n1, &n2);
        out.fail(format!("C08|tree-differs|{}", if at.is_empty() { fam.to_string() } else { at }), case.clone(), format!("formatted as {:?}: the second tree differs", f1));
      }
      match catch_unwind(AssertUnwindSafe(|| Formatter::new().format(&t2))) { Ok(f2) => if f2 != f1 { out.fail(format!("C08|not-idempotent|{}", fam), case.clone(), format!("first {:?}, second {:?}", f1, f2)); }, Err(p) => out.fail(format!("C08|panic|format-again:{}", fam), case.clone(), panic_msg(p).chars().take(140).collect()) }
      out.set("families", fam);
      if (lo + 1) % 97 == 0 { out.sample(json!({"source": src, "formatted": f1})); }
    }
  }
}

impl Check for C08 {
  fn id(&self) -> &'static str { "C08" }
  fn level(&self) -> &'static str { "exploration" }
  // a unit may hold the 76 KB specification document: leave room for a loaded machine
  fn unit_budget(&self, t: Tier) -> Duration { Duration::from_secs(t.pick(240, 900)) }
  fn drive(&mut self, _tier: Tier, cfg: &PoolCfg, rep: &mut Report) {
    let n = self.ps.len() as u64;
    rep.rule = format!("{} programs from a template grammar with one production per syntactic form: every literal form, matrix literals of every shape up to 3x3 with five element forms, sets / tuples / records / maps / tables / comprehensions, every binary operator alone, chained and with either parenthesisation, mixed-level chains and nested parentheses, unary operators, ranges, every subscript form for reads and assignments, every statement form, calls, function / enum / kind / match / state-machine definitions, statement separators and comments, every Mechdown element, all two-level templates (16 statement forms x 22 expression forms), and the programs of the other checks; \
      each is parsed, formatted, re-parsed (must succeed), the two trees compared after removing every source position (operator synonyms unified), and formatted again (must be identical text); evaluations = programs; non-trivial = programs that parse", n);
    rep.assumptions = vec!["tree equality is equality of the Debug rendering with SourceRange values removed; whitespace-only differences inside the tree are treated as differences only when they are tokens of the tree".into()];
    rep.cov("bounds", json!({"programs": n}));
    let ps = self.ps.clone();
    rep.describe = Some(Box::new(move |_p, u| ("format".to_string(), ps[(u * CHUNK) as usize].0.replace('\n', " ⏎ "))));
    drive_ranges(cfg, rep, range_jobs("", (n + CHUNK - 1) / CHUNK, 1));
    if rep.out.sets.get("families").map(|s| s.len()).unwrap_or(0) < 15 { rep.vacuity.push("fewer than 15 program families were formatted".into()); }
  }
}
