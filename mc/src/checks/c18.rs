//! C18 — table joins are the relational-algebra joins; row selection returns exactly the addressed rows.
//! unit = (schema pair, lhs table index): every rhs table x 6 operators x symbol/word form, plus 0-row operands.
use super::*;
use crate::canon::Canon;
use crate::pool::*;
use crate::report::Report;
use crate::subject::*;
use serde_json::json;
use std::collections::BTreeMap;

pub const LSCHEMAS: [&[&str]; 3] = [&["k", "a"], &["k", "j", "a"], &["a"]];
pub const RSCHEMAS: [&[&str]; 3] = [&["k", "b"], &["k", "j", "b"], &["b"]];
pub const OPS: [(&str, &str, &str); 6] = [("⋈", "table/join", "inner"), ("⟕", "table/left-outer-join", "left"), ("⟖", "table/right-outer-join", "right"), ("⟗", "table/full-outer-join", "full"), ("⋉", "table/left-semi-join", "semi"), ("▷", "table/left-anti-join", "anti")];

#[derive(Clone, Debug)]
pub struct Tbl { pub cols: Vec<&'static str>, pub rows: Vec<Vec<i64>> }

fn is_key(c: &str) -> bool { c == "k" || c == "j" }

/// every table over a schema with 1..maxrows rows: key cells in {1,2}, payload cells unique per row
pub fn tables(schema: &[&'static str], maxrows: usize, side: i64) -> Vec<Tbl> {
  let nk = schema.iter().filter(|c| is_key(c)).count();
  let mut out = vec![];
  for r in 1..=maxrows {
    let combos = 1usize << (nk * r);
    for m in 0..combos {
      let mut rows = vec![];
      let mut bit = 0;
      for ri in 0..r {
        let mut row = vec![];
        for c in schema { if is_key(c) { row.push(1 + ((m >> bit) & 1) as i64); bit += 1; } else { row.push(side * (ri as i64 + 1)); } }
        rows.push(row);
      }
      out.push(Tbl { cols: schema.to_vec(), rows });
    }
  }
  out
}

/// the same table with its columns declared in another order (0 as listed, 1 reversed, 2 rotated left); cells move with their column
pub fn permute(t: &Tbl, p: usize) -> Tbl {
  let n = t.cols.len();
  let order: Vec<usize> = match p { 1 => (0..n).rev().collect(), 2 => (0..n).map(|i| (i + 1) % n).collect(), _ => (0..n).collect() };
  Tbl { cols: order.iter().map(|i| t.cols[*i]).collect(), rows: t.rows.iter().map(|r| order.iter().map(|i| r[*i]).collect()).collect() }
}

/// column kind layouts: (kind of the key columns k, j; kind of the payload columns a, b)
pub const LAYOUTS: [(&str, &str); 5] = [("u64", "u64"), ("u8", "f64"), ("string", "u64"), ("bool", "string"), ("f64", "u8")];

fn spell(kind: &str, v: i64) -> String {
  // u8 payloads must fit the kind: 100, 200, 300 are written as 101, 102, 103 (and decoded back in `observed`)
  match kind { "string" => format!("\"s{}\"", v), "bool" => (if v == 1 { "true" } else { "false" }).to_string(), "f64" => format!("{}.5", v), "u8" if v >= 100 => (100 + v / 100).to_string(), _ => v.to_string() }
}

pub fn literal(t: &Tbl) -> String { literal_in(t, LAYOUTS[0]) }
pub fn literal_in(t: &Tbl, lay: (&str, &str)) -> String {
  let kind_of = |c: &str| if is_key(c) { lay.0 } else { lay.1 };
  let head = t.cols.iter().map(|c| format!("{}<{}>", c, kind_of(c))).collect::<Vec<_>>().join(" ");
  let rows = t.rows.iter().map(|r| r.iter().zip(t.cols.iter()).map(|(x, c)| spell(kind_of(c), *x)).collect::<Vec<_>>().join(" ")).collect::<Vec<_>>().join(" | ");
  format!("|{}| {} |", head, rows)
}

type Row = BTreeMap<String, Option<i64>>;

/// nested-loop reference: (columns, optional columns, multiset of rows)
pub fn reference(a: &Tbl, b: &Tbl, op: &str) -> (Vec<String>, Vec<String>, Vec<Row>) {
  let shared: Vec<&str> = a.cols.iter().filter(|c| b.cols.contains(c)).cloned().collect();
  let a_only: Vec<&str> = a.cols.iter().filter(|c| !shared.contains(c)).cloned().collect();
  let b_only: Vec<&str> = b.cols.iter().filter(|c| !shared.contains(c)).cloned().collect();
  let cell = |t: &Tbl, r: &Vec<i64>, c: &str| r[t.cols.iter().position(|x| *x == c).unwrap()];
  let matches = |ra: &Vec<i64>, rb: &Vec<i64>| shared.iter().all(|c| cell(a, ra, c) == cell(b, rb, c));
  let mut rows: Vec<Row> = vec![];
  let mut b_matched = vec![false; b.rows.len()];
  let mk = |ra: Option<&Vec<i64>>, rb: Option<&Vec<i64>>, cols: &Vec<String>| -> Row {
    let mut m = Row::new();
    for c in cols {
      let v = if a.cols.contains(&c.as_str()) && ra.is_some() { Some(cell(a, ra.unwrap(), c)) } else if b.cols.contains(&c.as_str()) && rb.is_some() { Some(cell(b, rb.unwrap(), c)) } else { None };
      m.insert(c.clone(), v);
    }
    m
  };
  let all_cols: Vec<String> = a.cols.iter().map(|c| c.to_string()).chain(b_only.iter().map(|c| c.to_string())).collect();
  let a_cols: Vec<String> = a.cols.iter().map(|c| c.to_string()).collect();
  match op {
    "semi" | "anti" => {
      for ra in &a.rows { let has = b.rows.iter().any(|rb| matches(ra, rb)); if has == (op == "semi") { rows.push(mk(Some(ra), None, &a_cols)); } }
      (a_cols, vec![], rows)
    }
    _ => {
      for ra in &a.rows {
        let mut any = false;
        for (bi, rb) in b.rows.iter().enumerate() { if matches(ra, rb) { any = true; b_matched[bi] = true; rows.push(mk(Some(ra), Some(rb), &all_cols)); } }
        if !any && (op == "left" || op == "full") { rows.push(mk(Some(ra), None, &all_cols)); }
      }
      if op == "right" || op == "full" { for (bi, rb) in b.rows.iter().enumerate() { if !b_matched[bi] { rows.push(mk(None, Some(rb), &all_cols)); } } }
      let mut opt: Vec<String> = vec![];
      if op == "left" || op == "full" { opt.extend(b_only.iter().map(|c| c.to_string())); }
      if op == "right" || op == "full" { opt.extend(a_only.iter().map(|c| c.to_string())); }
      (all_cols, opt, rows)
    }
  }
}

fn observed(c: &Canon) -> Option<(Vec<(String, String)>, Vec<Row>, usize)> {
  if let Canon::Table(cols, rows, n) = c {
    let mut out = vec![];
    for r in rows {
      let mut m = Row::new();
      for (i, (name, _)) in cols.iter().enumerate() {
        // decode the cell spellings of every layout back to the integer the generator wrote
        let v = match r.get(i) {
          Some(Canon::Num(k, t)) if k == "f64" => t.parse::<f64>().ok().map(|x| if x.fract() == 0.5 { x.floor() as i64 } else { i64::MIN }),
          Some(Canon::Num(k, t)) if k == "u8" => t.parse::<i64>().ok().map(|x| if x > 100 { (x - 100) * 100 } else { x }),
          Some(Canon::Num(_, t)) => t.parse::<i64>().ok(),
          Some(Canon::Str(t)) => t.strip_prefix('s').and_then(|x| x.parse::<i64>().ok()).or(Some(i64::MIN)),
          Some(Canon::Bool(b)) => Some(if *b { 1 } else { 2 }),
          Some(Canon::Empty) => None,
          _ => Some(i64::MIN) };
        m.insert(name.clone(), v);
      }
      out.push(m);
    }
    Some((cols.clone(), out, *n))
  } else { None }
}

pub struct C18 { tier: Tier }
impl C18 { pub fn new(tier: Tier) -> C18 { C18 { tier } } fn maxrows(&self) -> usize { self.tier.pick(2, 3) } }

fn judge(c: &Canon, a: &Tbl, b: &Tbl, op: &str, locus: &str, case: &str, out: &mut WorkerOut) {
  let (cols, opt, mut want) = reference(a, b, op);
  let (gcols, mut got, declared) = match observed(c) { Some(x) => x, None => { out.fail(format!("C18|wrong-columns|{}", locus), case.to_string(), format!("not a table: {}", c.short())); return; } };
  let mut gnames: Vec<String> = gcols.iter().map(|x| x.0.clone()).collect(); gnames.sort();
  let mut wnames = cols.clone(); wnames.sort();
  if gnames != wnames { out.fail(format!("C18|wrong-columns|{}", locus), case.to_string(), format!("columns {:?}, expected {:?}", gnames, wnames)); return; }
  for (n, k) in &gcols {
    let is_opt = k.ends_with('?');
    if is_opt != opt.contains(n) { out.fail(format!("C18|optional-kind-wrong|{}", locus), case.to_string(), format!("column {}<{}>: should {}be optional", n, k, if opt.contains(n) { "" } else { "not " })); }
  }
  if declared != got.len() { out.fail(format!("C18|wrong-row-count|{}", locus), case.to_string(), format!("declared {} rows, {} stored", declared, got.len())); }
  want.sort(); got.sort();
  if want != got {
    let cls = if got.len() < want.len() { "missing-rows" } else if got.len() > want.len() { "extra-rows" } else { "wrong-cells" };
    out.fail(format!("C18|{}|{}", cls, locus), case.to_string(), format!("relational algebra gives {:?}, got {:?}", want, got));
  }
}

impl UnitRunner for C18 {
  fn unit(&mut self, payload: &str, unit: u64, out: &mut WorkerOut) {
    if payload == "contexts" { return context_unit(unit, out); }
    if payload == "same" { return self.same_schema_unit(unit, out); }
    // payload: "" | "L<layout>" | "P<lhs perm><rhs perm>" (column declaration orders: 0 as listed, 1 reversed, 2 rotated; layout 0)
    let li = payload.strip_prefix('L').and_then(|x| x.parse::<usize>().ok()).unwrap_or(0);
    let (lp, rp) = match payload.strip_prefix('P') { Some(x) if x.len() == 2 => (x[0..1].parse::<usize>().unwrap_or(0), x[1..2].parse::<usize>().unwrap_or(0)), _ => (0, 0) };
    let lay = LAYOUTS[li];
    let sp = (unit / 256) as usize;
    let ai = (unit % 256) as usize;
    if sp >= 9 { self.row_selection(unit - 9 * 256, out); return; }
    let (ls, rs) = (LSCHEMAS[sp / 3], RSCHEMAS[sp % 3]);
    // schemas with at most one key column afford more rows: 3 (quick) / 5 (thorough)
    let rows_for = |schema: &[&'static str]| if schema.iter().filter(|c| is_key(c)).count() <= 1 { self.tier.pick(3, 5) } else { self.maxrows() };
    let lt = tables(ls, rows_for(ls), 10);
    let rt = tables(rs, rows_for(rs), 100);
    if ai >= lt.len() { return; }
    if (lp, rp) != (0, 0) && permute(&lt[0], lp).cols == lt[0].cols && permute(&rt[0], rp).cols == rt[0].cols { return; }
    let a = &permute(&lt[ai], lp);
    let shared = ls.iter().filter(|c| rs.contains(c)).count();
    let rt: Vec<Tbl> = rt.iter().map(|t| permute(t, rp)).collect();
    for (bi, b) in rt.iter().enumerate() {
      let mut s = Session::new();
      let (da, db) = (format!("A := {}", literal_in(a, lay)), format!("B := {}", literal_in(b, lay)));
      if !s.run(&da).is_value() || !s.run(&db).is_value() { out.count("table_literal_rejected"); continue; }
      // 0-row operands arise as join results only
      let empty_ok = bi == 0 && s.run("E := A ▷ A").is_value() && s.run("G := B ▷ B").is_value();
      for (n, (sym, word, op)) in OPS.iter().enumerate() {
        let dup = a.rows.len() > 1 || b.rows.len() > 1;
        let locus = format!("{}:shared{}:{}{}", op, shared, if dup { "multi-row" } else { "single-row" }, if li == 0 { if (lp, rp) == (0, 0) { String::new() } else { format!(":columns-declared-{}-{}", ["as-listed", "reversed", "rotated"][lp], ["as-listed", "reversed", "rotated"][rp]) } } else { format!(":keys-{}-payload-{}", lay.0, lay.1) });
        out.evaluations += 1;
        let o = s.run(&format!("J{} := A {} B", n, sym));
        let case = format!("{}; {}; J := A {} B", da, db, sym);
        let cj = match &o { Outcome::Value(_) => s.get(&format!("J{}", n)), Outcome::Panic(m) => { out.fail(format!("C18|panic|{}", locus), case.clone(), m.clone()); None } _ => { out.nontrivial += 1; out.fail(format!("C18|join-rejected|{}", locus), case.clone(), o.short()); None } };
        if let Some(c) = &cj { out.nontrivial += 1; judge(c, a, b, op, &locus, &case, out); }
        // word form must agree with the symbol form
        out.evaluations += 1;
        let ow = s.run(&format!("W{} := {}(A, B)", n, word));
        if let (Some(c), Outcome::Value(_)) = (&cj, &ow) {
          out.nontrivial += 1;
          let cw = s.get(&format!("W{}", n));
          let same = match (observed(c), cw.as_ref().and_then(observed)) { (Some((c1, mut r1, _)), Some((c2, mut r2, _))) => { r1.sort(); r2.sort(); c1 == c2 && r1 == r2 } _ => false };
          if !same { out.fail(format!("C18|word-form-differs|{}", locus), format!("{}; {}; {}(A, B)", da, db, word), format!("symbol form {}, word form {:?}", c.short(), cw.map(|x| x.short()))); }
        } else if cj.is_some() { out.fail(format!("C18|word-form-differs|{}", locus), format!("{}; {}; {}(A, B)", da, db, word), format!("symbol form accepted, word form {}", ow.short())); }
        if empty_ok {
          let e = Tbl { cols: a.cols.clone(), rows: vec![] };
          let g = Tbl { cols: b.cols.clone(), rows: vec![] };
          for (nm, l, r, lt, rt2) in [("EB", "E", "B", &e, b), ("AG", "A", "G", a, &g)] {
            out.evaluations += 1;
            let o2 = s.run(&format!("{}{} := {} {} {}", nm, n, l, sym, r));
            let case2 = format!("{}; {}; E := A ▷ A; G := B ▷ B; J := {} {} {}", da, db, l, sym, r);
            match &o2 { Outcome::Value(_) => { if let Some(c) = s.get(&format!("{}{}", nm, n)) { out.nontrivial += 1; judge(&c, lt, rt2, op, &format!("{}:shared{}:empty-side", op, shared), &case2, out); } } Outcome::Panic(m) => out.fail(format!("C18|panic|{}:empty-side", op), case2, m.clone()), _ => { out.count("join_with_empty_side_rejected"); } }
          }
        }
      }
      if ai == 0 && bi == 1 { out.sample(json!({"A": literal(a), "B": literal(b), "inner": s.get("J0").map(|c| c.short())})); }
    }
  }
}

/// every table over a schema with 1..maxrows rows whose cells all come from two values per column (keys {1,2}, payloads {10,20}):
/// wholly duplicated rows occur, which the row-unique payloads of `tables` exclude
pub fn dup_tables(schema: &[&'static str], maxrows: usize) -> Vec<Tbl> {
  let nc = schema.len();
  let mut out = vec![];
  for r in 1..=maxrows {
    for m in 0..(1usize << (nc * r)) {
      let rows = (0..r).map(|ri| schema.iter().enumerate().map(|(ci, c)| { let b = ((m >> (ri * nc + ci)) & 1) as i64; if is_key(c) { 1 + b } else { 10 * (1 + b) } }).collect()).collect();
      out.push(Tbl { cols: schema.to_vec(), rows });
    }
  }
  out
}
pub const SAME_STRIDE: u64 = 8192;

impl C18 {
  fn same_rows(&self) -> usize { self.tier.pick(3, 4) }
  /// Operands of one schema (every column shared), with wholly duplicated rows: a table joined with itself, with an equal copy, with its
  /// rows reversed, without its last row and with its first row repeated. A row that occurs m times on the left and n times on the
  /// right yields m*n rows of an inner join.
  fn same_schema_unit(&mut self, unit: u64, out: &mut WorkerOut) {
    let (g, ai) = ((unit / SAME_STRIDE) as usize, (unit % SAME_STRIDE) as usize);
    let (schema, lay) = (LSCHEMAS[g / LAYOUTS.len()], LAYOUTS[g % LAYOUTS.len()]);
    let ts = dup_tables(schema, self.same_rows());
    if ai >= ts.len() { return; }
    let a = &ts[ai];
    let mut rev = a.clone(); rev.rows.reverse();
    let mut short = a.clone(); short.rows.pop();
    let mut longer = a.clone(); longer.rows.push(a.rows[0].clone());
    let mut variants: Vec<(&str, &str, Tbl)> = vec![("itself", "A", a.clone()), ("equal-copy", "B", a.clone()), ("rows-reversed", "C", rev), ("first-row-repeated", "D", longer)];
    if !short.rows.is_empty() { variants.push(("last-row-dropped", "F", short)); }
    let mut s = Session::new();
    let da = format!("A := {}", literal_in(a, lay));
    if !s.run(&da).is_value() { out.count("table_literal_rejected"); return; }
    let mut setup = da.clone();
    for (_, nm, t) in variants.iter().skip(1) { let d = format!("{} := {}", nm, literal_in(t, lay)); if !s.run(&d).is_value() { out.count("table_literal_rejected"); return; } setup.push_str("; "); setup.push_str(&d); }
    let dup = { let mut r = a.rows.clone(); r.sort(); r.dedup(); r.len() < a.rows.len() };
    for (vn, nm, t) in &variants {
      for (n, (sym, word, op)) in OPS.iter().enumerate() {
        for (l, r, lt, rt, dir) in [("A", *nm, a, t, "lhs"), (*nm, "A", t, a, "rhs")] {
          if *vn == "itself" && dir == "rhs" { continue; }
          if *vn == "equal-copy" && dir == "rhs" { continue; }
          let locus = format!("{}:same-schema:{}{}:{}{}", op, vn, if *vn == "itself" || *vn == "equal-copy" { String::new() } else { format!("-as-{}", if dir == "lhs" { "rhs" } else { "lhs" }) }, if dup { "duplicated-rows" } else { "distinct-rows" }, if lay == LAYOUTS[0] { String::new() } else { format!(":keys-{}-payload-{}", lay.0, lay.1) });
          for (form, text) in [("symbol", format!("{} {} {}", l, sym, r)), ("word", format!("{}({}, {})", word, l, r))] {
            out.evaluations += 1;
            let name = format!("J{}{}{}{}", nm, n, dir, form);
            let o = s.run(&format!("{} := {}", name, text));
            let case = format!("{}; J := {}", setup, text);
            match &o {
              Outcome::Value(_) => { if let Some(c) = s.get(&name) { out.nontrivial += 1; judge(&c, lt, rt, op, &locus, &case, out); } }
              Outcome::Panic(m) => out.fail(format!("C18|panic|{}", locus), case, m.clone()),
              _ => { out.nontrivial += 1; out.fail(format!("C18|join-rejected|{}", locus), case, o.short()); }
            }
          }
        }
      }
    }
    if ai == 20 && g == 0 { out.sample(json!({"A": literal(a), "A ⋈ A": s.get("JA0lhssymbol").map(|c| c.short())})); }
  }
  /// rows by scalar index, index vector and logical mask
  fn row_selection(&mut self, unit: u64, out: &mut WorkerOut) {
    let nrows = 1 + unit as usize;
    if nrows > self.tier.pick(4, 5) { return; }
    let t = Tbl { cols: vec!["k", "a"], rows: (0..nrows).map(|i| vec![i as i64 + 1, 10 * (i as i64 + 1)]).collect() };
    let mut s = Session::new();
    let dt = format!("T := {}", literal(&t));
    if !s.run(&dt).is_value() { return; }
    let mut n = 0;
    let mut sel = |idx: String, want: Option<Vec<usize>>, scalar: bool, form: &str, s: &mut Session, out: &mut WorkerOut| {
      n += 1;
      out.evaluations += 1; out.nontrivial += 1;
      let o = s.run(&format!("r{} := T[{}]", n, idx));
      let case = format!("{}; r := T[{}]", dt, idx);
      let locus = format!("select:{}", form);
      match (&want, &o) {
        (_, Outcome::Panic(m)) => out.fail(format!("C18|panic|{}", locus), case, m.clone()),
        (None, Outcome::Value(_)) => { let g = s.get(&format!("r{}", n)); let empty = matches!(&g, Some(Canon::Table(_, r, _)) if r.is_empty()); if !empty { out.fail(format!("C18|select-wrong|{}:invalid-accepted", locus), case, format!("index addresses no row, got {:?}", g.map(|c| c.short()))); } }
        (None, _) => {}
        (Some(w), Outcome::Value(_)) => {
          let g = s.get(&format!("r{}", n));
          let rows: Option<Vec<Vec<Option<i64>>>> = match &g {
            Some(Canon::Table(cols, r, _)) => Some(r.iter().map(|row| cols.iter().enumerate().map(|(i, _)| match row.get(i) { Some(Canon::Num(_, t)) => t.parse().ok(), _ => None }).collect()).collect()),
            Some(Canon::Record(f)) if scalar => Some(vec![f.iter().map(|(_, _, v)| match v { Canon::Num(_, t) => t.parse().ok(), _ => None }).collect()]),
            _ => None,
          };
          let wantrows: Vec<Vec<Option<i64>>> = w.iter().map(|i| t.rows[*i].iter().map(|x| Some(*x)).collect()).collect();
          if rows.as_ref() != Some(&wantrows) { out.fail(format!("C18|select-wrong|{}", locus), case, format!("rows {:?} expected, got {:?}", wantrows, g.map(|c| c.short()))); }
        }
        (Some(_), _) => { out.count("row_selection_rejected"); out.set("rejected_selections", &format!("{} ({})", form, o.short())); }
      }
    };
    for k in 0..=nrows + 1 { let w = if k >= 1 && k <= nrows { Some(vec![k - 1]) } else { None }; sel(format!("{}", k), w, true, "scalar", &mut s, out); }
    for a in 0..=nrows + 1 { for b in 0..=nrows + 1 { let ok = a >= 1 && a <= nrows && b >= 1 && b <= nrows; sel(format!("[{} {}]", a, b), if ok { Some(vec![a - 1, b - 1]) } else { None }, false, "vector", &mut s, out); } }
    // every index vector of length 3 over 1..n and, for n = 4, of length 4 (permuted, repeated, descending, contiguous)
    if nrows >= 3 {
      let mut vecs: Vec<Vec<usize>> = vec![];
      for a in 1..=nrows { for b in 1..=nrows { for c in 1..=nrows { vecs.push(vec![a, b, c]); if nrows == 4 { for d in 1..=nrows { vecs.push(vec![a, b, c, d]); } } } } }
      for v in vecs { sel(format!("[{}]", v.iter().map(|x| x.to_string()).collect::<Vec<_>>().join(" ")), Some(v.iter().map(|x| x - 1).collect()), false, "vector", &mut s, out); }
    }
    for l in nrows.saturating_sub(1).max(2)..=nrows + 1 { for bits in 0..(1u32 << l) {
      let m: Vec<bool> = (0..l).map(|i| bits >> i & 1 == 1).collect();
      // a full-length mask without a true entry selects exactly zero rows
      let ok = l == nrows;
      // a mask whose length differs from the row count is not covered by the statement (it speaks of the rows a mask selects): skipped
      let w: Option<Vec<usize>> = if ok { Some(m.iter().enumerate().filter(|(_, b)| **b).map(|(i, _)| i).collect()) } else { continue };
      sel(format!("[{}]", m.iter().map(|x| x.to_string()).collect::<Vec<_>>().join(" ")), w, false, "mask", &mut s, out);
    } }
  }
}

impl Check for C18 {
  fn id(&self) -> &'static str { "C18" }
  fn level(&self) -> &'static str { "exploration" }
  fn unit_budget(&self, _t: Tier) -> Duration { Duration::from_secs(120) }
  fn drive(&mut self, tier: Tier, cfg: &PoolCfg, rep: &mut Report) {
    rep.rule = format!("9 schema pairs (lhs columns from {{k,j,a}}, rhs from {{k,j,b}}: 0, 1 or 2 shared names) x every lhs table x every rhs table with 1..{} rows (1..3 quick / 1..5 thorough when the schema has at most one key column; key cells over {{1,2}}, row-unique payloads, so duplicates and non-matching keys all occur) x 5 column-kind layouts (keys u64 / u8 / string / bool / f64 with payloads u64 / f64 / u64 / string / u8) x inner, left/right/full outer, left semi, left anti x symbol and word form, plus 0-row operands produced by an anti-join; operands of one schema (every column shared; 3 schemas x 5 layouts x every table of 1..{} rows with cells over two values per column, so wholly duplicated rows occur) joined with themselves, an equal copy, their rows reversed, their first row repeated and their last row dropped, either way round; \
      row selection on tables of 1..{} rows by every scalar index 0..n+1, every index pair, every index vector of length 3 (and 4 for n = 4), every mask of length n-1..n+1; the reference is a nested-loop join on lists of rows compared as multisets keyed by column name incl. which columns are optional; evaluations = statements; non-trivial = judged statements", self.maxrows(), self.same_rows(), tier.pick(4, 5));
    rep.assumptions = vec!["row order of a join, column order and shared columns of different kinds are not judged".into()];
    rep.cov("bounds", json!({"schema_pairs": 9, "max_rows": self.maxrows()}));
    let mut jobs = range_jobs("", 9 * 256, 1);
    jobs.retain(|j| { let ai = (j.lo % 256) as usize; ai < 1 + 4 + 16 + 64 + 84 });
    // the same pairs with every other column-kind layout (keys u8 / string / bool / f64, payloads f64 / u64 / string / u8)
    let base = jobs.clone();
    for li in 1..LAYOUTS.len() { jobs.extend(base.iter().map(|j| Job { payload: format!("L{}", li), lo: j.lo, hi: j.hi })); }
    // the same pairs (first layout) with the columns of either side declared in another order: shared columns then sit at different positions
    for lp in 0..3 { for rp in 0..3 { if (lp, rp) != (0, 0) { jobs.extend(base.iter().map(|j| Job { payload: format!("P{}{}", lp, rp), lo: j.lo, hi: j.hi })); } } }
    jobs.extend((0..5).map(|u| Job { payload: String::new(), lo: 9 * 256 + u, hi: 9 * 256 + u + 1 }));
    jobs.extend(range_jobs("contexts", 3, 1));
    // operands of one schema with wholly duplicated rows (self joins, equal copies, near copies)
    for g in 0..LSCHEMAS.len() * LAYOUTS.len() {
      let n = dup_tables(LSCHEMAS[g / LAYOUTS.len()], self.same_rows()).len() as u64;
      jobs.extend((0..n).map(|ai| Job { payload: "same".into(), lo: g as u64 * SAME_STRIDE + ai, hi: g as u64 * SAME_STRIDE + ai + 1 }));
    }
    drive_ranges(cfg, rep, jobs);
    if rep.out.nontrivial < 1000 { rep.vacuity.push("too few judged joins".into()); }
  }
}

/// Joins whose operands are names bound by a match arm, and table literals whose cells are bound locally (function parameters, match-arm
/// bindings); every local name is shadowed by a global of another value.
fn context_unit(unit: u64, out: &mut WorkerOut) {
  use crate::ctx::{lv, Tpl};
  let lay = LAYOUTS[(unit as usize) % LAYOUTS.len()];
  let a = Tbl { cols: vec!["k", "j", "a"], rows: vec![vec![1, 1, 10], vec![2, 1, 20], vec![1, 2, 30]] };
  let b = Tbl { cols: vec!["j", "k", "b"], rows: vec![vec![1, 1, 100], vec![2, 2, 200], vec![1, 1, 300]] };
  let z = Tbl { cols: vec!["k", "j", "a"], rows: vec![vec![2, 2, 90]] };
  let mut s = Session::new();
  for d in [format!("ga := {}", literal_in(&a, lay)), format!("gb := {}", literal_in(&b, lay)), format!("p := {}", literal_in(&z, lay)), format!("q := {}", literal_in(&z, lay))] { if !s.run(&d).is_value() { out.count("context_setup_rejected"); return; } }
  let mut tpls: Vec<Tpl> = vec![];
  for (sym, word, op) in OPS.iter() {
    tpls.push(Tpl { local: format!("p {} q", sym), top: format!("ga {} gb", sym), vars: vec![lv("p", "ga", "table"), lv("q", "gb", "table")], scalar_operands: false, set_ok: false, tag: format!("{}:symbol", op), fn_ok: false });
    tpls.push(Tpl { local: format!("{}(p, q)", word), top: format!("{}(ga, gb)", word), vars: vec![lv("p", "ga", "table"), lv("q", "gb", "table")], scalar_operands: false, set_ok: false, tag: format!("{}:word", op), fn_ok: false });
    tpls.push(Tpl { local: format!("p {} gb", sym), top: format!("ga {} gb", sym), vars: vec![lv("p", "ga", "table")], scalar_operands: false, set_ok: false, tag: format!("{}:lhs-local", op), fn_ok: false });
    tpls.push(Tpl { local: format!("ga {} q", sym), top: format!("ga {} gb", sym), vars: vec![lv("q", "gb", "table")], scalar_operands: false, set_ok: false, tag: format!("{}:rhs-local", op), fn_ok: false });
  }
  crate::ctx::judge_templates("C18", &mut s, &tpls, 0, &format!("ga := {}; gb := {}; p, q := {} (globals)", literal_in(&a, lay), literal_in(&b, lay), literal_in(&z, lay)), out);
  // table literals with locally bound cells
  let mut s = Session::new();
  for d in ["x := 91", "y := 92", "gx := 1", "gy := 2"] { s.run(d); }
  let cell = vec![
    Tpl { local: "| k<f64> v<f64> | x y |".into(), top: "| k<f64> v<f64> | gx gy |".into(), vars: vec![lv("x", "gx", "f64"), lv("y", "gy", "f64")], scalar_operands: true, set_ok: false, tag: "table-literal:one-row".into(), fn_ok: false },
    Tpl { local: "| k<f64> v<f64> | x y | y x |".into(), top: "| k<f64> v<f64> | gx gy | gy gx |".into(), vars: vec![lv("x", "gx", "f64"), lv("y", "gy", "f64")], scalar_operands: true, set_ok: false, tag: "table-literal:two-rows".into(), fn_ok: false },
    Tpl { local: "| k<f64> v<f64> | x 5 | 6 y |".into(), top: "| k<f64> v<f64> | gx 5 | 6 gy |".into(), vars: vec![lv("x", "gx", "f64"), lv("y", "gy", "f64")], scalar_operands: true, set_ok: false, tag: "table-literal:mixed".into(), fn_ok: false },
  ];
  if unit == 0 { crate::ctx::judge_templates("C18", &mut s, &cell, 500, "x := 91; y := 92 (globals); gx := 1; gy := 2", out); }
  // row selection with locally bound positions (the globals i, j hold other rows)
  if unit == 1 {
    let mut s = Session::new();
    let t = Tbl { cols: vec!["k", "a"], rows: vec![vec![1, 10], vec![2, 20], vec![3, 30], vec![4, 40]] };
    for d in [format!("gt := {}", literal(&t)), "i := 4".to_string(), "j := 4".to_string(), "gi := 2".to_string(), "gj := 3".to_string(), "gm := [true; false; true; false]".to_string(), "m := [false; false; false; true]".to_string()] { s.run(&d); }
    let sel = vec![
      Tpl { local: "gt[i]".into(), top: "gt[gi]".into(), vars: vec![lv("i", "gi", "f64")], scalar_operands: true, set_ok: false, tag: "select:scalar".into(), fn_ok: false },
      Tpl { local: "gt[[i j]]".into(), top: "gt[[gi gj]]".into(), vars: vec![lv("i", "gi", "f64"), lv("j", "gj", "f64")], scalar_operands: true, set_ok: false, tag: "select:vector".into(), fn_ok: false },
      Tpl { local: "gt[[j i j]]".into(), top: "gt[[gj gi gj]]".into(), vars: vec![lv("i", "gi", "f64"), lv("j", "gj", "f64")], scalar_operands: true, set_ok: false, tag: "select:vector-repeats".into(), fn_ok: false },
      Tpl { local: "gt[m]".into(), top: "gt[gm]".into(), vars: vec![lv("m", "gm", "[bool]")], scalar_operands: false, set_ok: false, tag: "select:mask".into(), fn_ok: false },
      Tpl { local: "gt[i + 1]".into(), top: "gt[gi + 1]".into(), vars: vec![lv("i", "gi", "f64")], scalar_operands: true, set_ok: false, tag: "select:formula".into(), fn_ok: false },
    ];
    crate::ctx::judge_templates("C18", &mut s, &sel, 700, &format!("gt := {}; i := 4; j := 4; m := [false; false; false; true] (globals); gi := 2; gj := 3; gm := [true; false; true; false]", literal(&t)), out);
  }
}
