//! C07 — bytecode files round-trip exactly; corrupted files are rejected; no byte sequence crashes the loader.
//! Fault enumeration over emitted files: every truncation, every bit flip, every burst (<= L bits exhaustively, pattern
//! families up to 32), and structural mutants (every byte offset x width x boundary value) with the CRC trailer recomputed.
use super::*;
use crate::canon::{canon, Canon};
use crate::pool::*;
use crate::report::Report;
use crate::subject::*;
use mech_core::*;
use mech_interpreter::Interpreter;
use serde_json::json;
use std::panic::{catch_unwind, AssertUnwindSafe};

pub fn base_programs(tier: Tier) -> Vec<(&'static str, String)> {
  let mut v: Vec<(&'static str, String)> = vec![
    ("scalar-f64", "x := 10".into()), ("math", "x := 1 + 2\ny := x + 4".into()), ("string", "x := \"Hello World!\"".into()), ("string-utf8", "x := \"héllo 日本\"".into()),
    ("row3", "x := [1 2 3]".into()), ("col2", "x := [1; 2]".into()), ("m2x2", "x := [1 2; 3 4]".into()), ("col3", "x := [1; 2; 3]".into()), ("col4", "x := [1; 2; 3; 4]".into()), ("col5", "x := [1; 2; 3; 4; 5]".into()),
    ("bool", "x := true".into()), ("cmp", "x := 1 > 2".into()), ("streq", "x := \"foo\" == \"bar\"".into()), ("logic", "x := true && false".into()), ("not", "x := !true".into()),
    ("u8", "x := 200u8".into()), ("u64-add", "x := 1u64 + 2u64".into()), ("i64-hex", "x := 0xff".into()), ("f32", "x<f32> := 2.5".into()),
    ("add-assign", "~x := 10\nx += 20".into()), ("add-assign-vv", "~x := [1 2 3]\nx += [10 20 30]".into()), ("index-assign", "~x := [1 2 3]\nx[2] = 9".into()), ("index-read", "x := [1 2 3]\ny := x[2]".into()),
    ("range", "x := 1..=5".into()), ("nck", "x := combinatorics/n-choose-k(10,2)".into()), ("sin", "x := math/sin(0.5)".into()), ("atan2", "x := math/atan2(1,2)".into()),
    ("set", "x := {1,2,3}".into()), ("table", "x := | a<f64> b<f64> | 1 2 | 3 4 |".into()), ("record", "x := {a: 1, b: \"s\"}".into()), ("u8-matrix", "x<[u8]> := [1 2 3]".into()), ("string-matrix", "x := [\"a\" \"b\"]".into()),
    ("bool-matrix", "x := [true false]".into()), ("rational", "x := 1/3".into()), ("complex", "x := 1+2i".into()), ("empty-string", "x := \"\"".into()), ("transpose", "x := [1 2; 3 4]'".into()), ("matmul", "a := [1 2; 3 4]\nb := a ** a".into()),
    ("chain", "a := 1\nb := a\nc := b + a".into()), ("slice2d", "x := [1 2 3; 4 5 6; 7 8 9]\ny := x[[1 3],2]".into()),
  ];
  // programs with many variables: the symbol section grows by one entry per variable
  for (name, n) in [("vars-11", 11usize), ("vars-12", 12), ("vars-13", 13), ("vars-25", 25)] {
    v.push((name, (0..n).map(|i| format!("v{} := {}", i, i + 1)).chain(std::iter::once(format!("r := v0 + v{}", n - 1))).collect::<Vec<_>>().join("\n")));
  }
  if tier == Tier::Thorough {
    for r in 1..=6usize { for c in 1..=3usize {
      let vals: Vec<String> = (0..r * c).map(|i| format!("{}", i + 1)).collect();
      v.push(("matrix-shape", format!("x := {}", super::c01::matrix_literal(&vals, r, c))));
    } }
    for k in ["u16", "u32", "u128", "i8", "i16", "i32", "i128"] { v.push(("kind-matrix", format!("x<[{}]> := [1 2 3]", k))); }
    for op in ["-", "*", "/", "^", "%"] { v.push(("binop", format!("a := [6 8; 9 4]\nb := a {} 2", op))); }
  }
  v
}

/// literals whose constant has elements of varying encoded size at every position (strings of length 0..4 incl. multi-byte ones, in
/// matrices of every shape up to 2x3 / 3x2, sets, tuples of mixed kinds, records, tables, maps), plus fixed-size element kinds
pub fn literal_corpus() -> Vec<String> {
  let strs = ["\"\"", "\"a\"", "\"bc\"", "\"def\"", "\"é\"", "\"日本\"", "\"ghij\""];
  let mut v: Vec<String> = vec![];
  for (r, c) in [(1usize, 2usize), (1, 3), (2, 1), (3, 1), (2, 2), (2, 3), (3, 2), (1, 4)] {
    for rot in 0..strs.len() {
      let vals: Vec<String> = (0..r * c).map(|i| strs[(rot + i * 2) % strs.len()].to_string()).collect();
      v.push(super::c01::matrix_literal(&vals, r, c));
    }
  }
  for rot in 0..strs.len() { v.push(format!("{{{}, {}, {}}}", strs[rot], strs[(rot + 1) % strs.len()], strs[(rot + 3) % strs.len()])); }
  // (no tuples: compile() of a tuple constant never returns - a known finding owned by C06)
  for rot in 0..strs.len() { v.push(format!("{{a: {}, b: 2, c: {}}}", strs[rot], strs[(rot + 4) % strs.len()])); }
  for rot in 0..strs.len() { v.push(format!("| n<string> v<f64> | {} 1 | {} 2 | {} 3 |", strs[rot], strs[(rot + 1) % strs.len()], strs[(rot + 5) % strs.len()])); }
  for k in ["u8", "u16", "u32", "u64", "i8", "i16", "i32", "i64", "f32"] { v.push(format!("[1{k} 2{k} 3{k}]", k = k)); v.push(format!("[1{k} 2{k}; 3{k} 4{k}]", k = k)); v.push(format!("{{1{k}, 2{k}}}", k = k)); }
  for l in ["[true false true]", "[1/2 1/3 3/4]", "[1+2i 3-1i]", "{1/2, 1/3}", "{1+2i, 3-4i}", "{true, false}", "{{1,2},{3,4}}", "[1.5 2.5; 3.5 4.5; 5.5 6.5]", "| a<r64> | 1/2 | 1/3 |", "| a<bool> b<u8> | true 1 | false 2 |"] { v.push(l.to_string()); }
  v
}

// table-driven CRC-32 (IEEE), the trailer format of the loader
fn crc32(data: &[u8]) -> u32 {
  let mut table = [0u32; 256];
  for i in 0..256u32 { let mut c = i; for _ in 0..8 { c = if c & 1 != 0 { 0xEDB88320 ^ (c >> 1) } else { c >> 1 }; } table[i as usize] = c; }
  let mut crc = 0xFFFF_FFFFu32;
  for b in data { crc = table[((crc ^ *b as u32) & 0xFF) as usize] ^ (crc >> 8); }
  crc ^ 0xFFFF_FFFF
}

pub fn with_trailer(mut payload: Vec<u8>) -> Vec<u8> { let c = crc32(&payload); payload.extend_from_slice(&c.to_le_bytes()); payload }

#[derive(PartialEq, Debug)]
pub enum Dec { Ok, Err, Panic(String) }

/// the loader and (if it loaded) the constant decoder, both guarded
pub fn decode(bytes: &[u8]) -> Dec {
  match catch_unwind(AssertUnwindSafe(|| ParsedProgram::from_bytes(bytes))) {
    Ok(Ok(p)) => match catch_unwind(AssertUnwindSafe(|| p.decode_const_entries())) {
      Ok(_) => Dec::Ok,
      Err(e) => Dec::Panic(format!("decode_const_entries: {}", panic_msg(e))),
    },
    Ok(Err(_)) => Dec::Err,
    Err(e) => Dec::Panic(format!("from_bytes: {}", panic_msg(e))),
  }
}

const HEADER_FIELDS: [(&str, usize, usize); 22] = [("magic", 0, 4), ("version", 4, 1), ("mech_ver", 5, 2), ("flags", 7, 2), ("reg_count", 9, 4), ("instr_count", 13, 4), ("feature_count", 17, 4), ("feature_off", 21, 8),
  ("types_count", 29, 4), ("types_off", 33, 8), ("const_count", 41, 4), ("const_tbl_off", 45, 8), ("const_tbl_len", 53, 8), ("const_blob_off", 61, 8), ("const_blob_len", 69, 8), ("symbols_len", 77, 8), ("symbols_off", 85, 8),
  ("instr_off", 93, 8), ("instr_len", 101, 8), ("dict_off", 109, 8), ("dict_len", 117, 8), ("reserved", 125, 4)];

fn rd32(b: &[u8], o: usize) -> u32 { if o + 4 <= b.len() { u32::from_le_bytes(b[o..o + 4].try_into().unwrap()) } else { 0 } }

/// the emitted file with the blob replaced by `blob` and constant `ci` pointing at all of it (every other entry is clipped to the
/// new blob), later sections shifted, header and trailer rewritten. None if the header is not laid out as expected.
pub fn with_payload(file: &[u8], ci: usize, blob: &[u8]) -> Option<Vec<u8>> {
  let body = &file[..file.len().checked_sub(4)?];
  let (tbl_off, tbl_len, blob_off, blob_len) = (rd64(body, 45) as usize, rd64(body, 53) as usize, rd64(body, 61) as usize, rd64(body, 69) as usize);
  let n = rd32(body, 41) as usize;
  if n == 0 || ci >= n || tbl_len != n * 24 || tbl_off + tbl_len > body.len() || blob_off + blob_len > body.len() || blob_off < tbl_off + tbl_len { return None; }
  let mut m: Vec<u8> = body[..blob_off].to_vec();
  m.extend_from_slice(blob);
  m.extend_from_slice(&body[blob_off + blob_len..]);
  let delta = blob.len() as i64 - blob_len as i64;
  m[69..77].copy_from_slice(&(blob.len() as u64).to_le_bytes());
  for field in [21usize, 33, 85, 93, 109] { let o = rd64(body, field); if o as usize >= blob_off + blob_len && o != 0 { m[field..field + 8].copy_from_slice(&((o as i64 + delta) as u64).to_le_bytes()); } }
  for k in 0..n {
    let e = tbl_off + k * 24;
    if k == ci { m[e + 8..e + 16].copy_from_slice(&0u64.to_le_bytes()); m[e + 16..e + 24].copy_from_slice(&(blob.len() as u64).to_le_bytes()); }
    else { let len = rd64(body, e + 16).min(blob.len() as u64); m[e + 8..e + 16].copy_from_slice(&0u64.to_le_bytes()); m[e + 16..e + 24].copy_from_slice(&len.to_le_bytes()); }
  }
  Some(with_trailer(m))
}

fn rd64(b: &[u8], o: usize) -> u64 { if o + 8 <= b.len() { u64::from_le_bytes(b[o..o + 8].try_into().unwrap()) } else { 0 } }

/// name of the section a byte offset lies in (from the file's own header)
pub fn section_of(b: &[u8], off: usize) -> String {
  for (n, o, w) in HEADER_FIELDS.iter() { if off >= *o && off < *o + *w { return format!("header.{}", n); } }
  let marks = [("features", rd64(b, 21)), ("types", rd64(b, 33)), ("const_table", rd64(b, 45)), ("const_blob", rd64(b, 61)), ("symbols", rd64(b, 85)), ("instructions", rd64(b, 93)), ("dictionary", rd64(b, 109))];
  let mut best = ("body", 0u64);
  for (n, o) in marks { if o != 0 && (off as u64) >= o && o >= best.1 { best = (n, o); } }
  if off + 4 >= b.len() { return "crc-trailer".into(); }
  best.0.to_string()
}

pub struct C07 { tier: Tier, progs: Vec<(&'static str, String)>, cache: std::collections::HashMap<usize, Option<Vec<u8>>> }

pub const BITS_PER_UNIT: usize = 1024;
pub const BYTES_PER_UNIT: usize = 16;

impl C07 {
  pub fn new(tier: Tier) -> C07 { C07 { tier, progs: base_programs(tier), cache: Default::default() } }

  fn emit(&mut self, b: usize) -> Option<Vec<u8>> {
    if let Some(x) = self.cache.get(&b) { return x.clone(); }
    let r = emit_bytes(&self.progs[b].1);
    self.cache.insert(b, r.clone());
    r
  }
}

pub fn emit_bytes(src: &str) -> Option<Vec<u8>> {
  let tree = parse_cached(src)?;
  let mut i = Interpreter::new(0);
  match catch_unwind(AssertUnwindSafe(|| i.interpret(&tree))) { Ok(Ok(_)) => {}, _ => return None }
  match catch_unwind(AssertUnwindSafe(|| i.compile())) { Ok(Ok(b)) => Some(b), _ => None }
}

/// the round-trip conditions for one emitted file: loads, re-encodes to the same bytes, header counts agree, constants decode (4 decodes)
fn check_emitted(bytes: &[u8], case: &str, tag: &str, out: &mut WorkerOut) {
  let case = case.to_string();
  let bytes = bytes.to_vec();
  for rep in 0..4 {
          match catch_unwind(AssertUnwindSafe(|| ParsedProgram::from_bytes(&bytes))) {
            Ok(Ok(p)) => {
              match catch_unwind(AssertUnwindSafe(|| p.to_bytes())) {
                Ok(Ok(re)) => if re != bytes {
                  let first = re.iter().zip(bytes.iter()).position(|(a, b)| a != b).unwrap_or(re.len().min(bytes.len()));
                  out.fail(format!("C07|roundtrip-differs|{}{}", section_of(&bytes, first), tag), case.clone(), format!("re-encoded file differs first at byte {} (lengths {} / {})", first, re.len(), bytes.len()));
                },
                Ok(Err(e)) => out.fail(format!("C07|roundtrip-differs|to_bytes-error{}", tag), case.clone(), e.kind_name()),
                Err(e) => out.fail("C07|panic|to_bytes".into(), case.clone(), panic_msg(e)),
              }
              // header / constants / instructions as written
              if p.header.instr_count as usize != p.instrs.len() { out.fail("C07|roundtrip-differs|instr_count".into(), case.clone(), format!("header says {} instructions, decoded {}", p.header.instr_count, p.instrs.len())); }
              if p.header.const_count as usize != p.const_entries.len() { out.fail("C07|roundtrip-differs|const_count".into(), case.clone(), format!("header says {} constants, decoded {}", p.header.const_count, p.const_entries.len())); }
              match catch_unwind(AssertUnwindSafe(|| p.decode_const_entries())) {
                Ok(Ok(vals)) => { if rep == 0 && tag.is_empty() { out.set("const_kinds", &vals.iter().map(|v| canon(v).kind_name()).collect::<Vec<_>>().join(",")); out.set("instr_shapes", &p.instrs.iter().map(|i| format!("{:?}", i).split(' ').next().unwrap_or("").to_string()).collect::<std::collections::BTreeSet<_>>().into_iter().collect::<Vec<_>>().join(",")); } }
                Ok(Err(e)) => out.fail(format!("C07|roundtrip-differs|decode_const_entries-error{}", tag), case.clone(), e.kind_name()),
                Err(e) => out.fail(format!("C07|panic|decode_const_entries{}", tag), case.clone(), panic_msg(e)),
              }
            }
            Ok(Err(e)) => { out.fail(format!("C07|roundtrip-differs|emitted-file-rejected{}", tag), case.clone(), e.kind_name()); break; }
            Err(e) => { out.fail("C07|panic|from_bytes".into(), case.clone(), panic_msg(e)); break; }
          }
        }
}

fn burst_patterns(l: usize) -> Vec<u32> {
  // all patterns of length l with first and last bit set
  if l == 1 { return vec![1]; }
  let inner = l - 2;
  (0..(1u32 << inner)).map(|m| 1 | (m << 1) | (1 << (l - 1))).collect()
}

fn family_patterns(l: usize) -> Vec<u32> {
  let full: u32 = if l == 32 { u32::MAX } else { (1u32 << l) - 1 };
  let ends: u32 = 1 | (1u32 << (l - 1));
  let mut alt: u32 = 0; for i in (0..l).step_by(2) { alt |= 1 << i; } alt |= 1 << (l - 1);
  let mut v = vec![full, ends, alt];
  for i in 1..l - 1 { v.push(ends | (1u32 << i)); }
  v
}

fn apply_burst(base: &[u8], bit: usize, pat: u32, l: usize) -> Option<Vec<u8>> {
  if bit + l > base.len() * 8 { return None; }
  let mut m = base.to_vec();
  for k in 0..l { if pat >> k & 1 == 1 { let p = bit + k; m[p / 8] ^= 1 << (p % 8); } }
  Some(m)
}

impl UnitRunner for C07 {
  fn unit(&mut self, payload: &str, unit: u64, out: &mut WorkerOut) {
    // payload: "<mode> <base index>"
    let mut it = payload.split(' ');
    let mode = it.next().unwrap_or("");
    let b: usize = it.next().and_then(|x| x.parse().ok()).unwrap_or(0);
    let name = self.progs.get(b).map(|p| p.0).unwrap_or("?");
    let src = self.progs.get(b).map(|p| p.1.clone()).unwrap_or_default();
    match mode {
      "corpus" => {
        // round trip (no mutation) of a larger corpus of emitted files: constants of every container shape with elements of varying
        // encoded size at every position; the decoded constants must contain the value the program defined
        let corpus = literal_corpus();
        for (li, lit) in corpus.iter().enumerate() {
          if li as u64 % 8 != unit { continue; }
          let src = format!("x := {}", lit);
          let Some(tree) = parse_cached(&src) else { out.count("corpus_unparsable"); continue; };
          let mut i = Interpreter::new(0);
          let want = match catch_unwind(AssertUnwindSafe(|| i.interpret(&tree))) { Ok(Ok(v)) => canon(&v), _ => { out.count("corpus_not_interpretable"); continue; } };
          let bytes = match catch_unwind(AssertUnwindSafe(|| i.compile())) { Ok(Ok(b)) => b, Ok(Err(_)) => { out.count("corpus_not_compilable"); out.set("corpus_not_compilable", lit); continue; } Err(e) => { out.fail("C07|panic|compile".into(), src.clone(), panic_msg(e)); continue; } };
          out.evaluations += 1; out.nontrivial += 1;
          let case = format!("{} ({} bytes)", src, bytes.len());
          let before = out.failures.len();
          check_emitted(&bytes, &case, ":corpus", out);
          if out.failures.len() > before { continue; }
          if let Ok(Ok(p)) = catch_unwind(AssertUnwindSafe(|| ParsedProgram::from_bytes(&bytes))) {
            if let Ok(Ok(vals)) = catch_unwind(AssertUnwindSafe(|| p.decode_const_entries())) {
              let decoded: Vec<Canon> = vals.iter().map(canon).collect();
              if decoded.iter().any(|c| c == &want) { out.count("corpus_constant_found"); }
              else { out.fail("C07|roundtrip-differs|decoded-constants:corpus".into(), case, format!("the program defines {}, the decoded constants are {:?}", want.short(), decoded.iter().map(|c| c.short()).collect::<Vec<_>>())); }
            }
          }
        }
      }
      "roundtrip" => {
        out.evaluations += 1;
        let bytes = match self.emit(b) { Some(x) => x, None => { out.count("base_program_not_compilable"); out.set("not_compilable", name); return; } };
        out.nontrivial += 1;
        out.extra.push(json!({"base": b, "len": bytes.len(), "fnv": format!("{:016x}", fnv(&bytes))}));
        let case = format!("{} ({} bytes)", src.replace('\n', " ; "), bytes.len());
        // same program compiled again in this process must give the same bytes
        // (the statement fixes decode/re-encode of emitted bytes, not that two compilations emit identical bytes: recorded only)
        if let Some(again) = emit_bytes(&src) { if again != bytes { out.count("two_compilations_in_one_process_emit_different_bytes"); } }
        check_emitted(&bytes, &case, "", out);
        // emission histories: a second compile() of the same interpreter, and a compile() after more source was interpreted, must emit
        // files that satisfy the same conditions (the statement is about every file the compiler emits, not only the first)
        if let Some(tree) = parse_cached(&src) {
          let mut i = Interpreter::new(0);
          if let Ok(Ok(_)) = catch_unwind(AssertUnwindSafe(|| i.interpret(&tree))) {
            let first = catch_unwind(AssertUnwindSafe(|| i.compile()));
            if let Ok(Ok(_)) = first {
              match catch_unwind(AssertUnwindSafe(|| i.compile())) {
                Ok(Ok(b2)) => { out.evaluations += 1; out.nontrivial += 1; out.count("second_compile_checked"); check_emitted(&b2, &format!("{} ; second compile() of the same interpreter", case), ":second-compile", out); }
                Ok(Err(_)) => out.count("second_compile_rejected"),
                Err(e) => out.fail("C07|panic|second-compile".into(), case.clone(), panic_msg(e)),
              }
              if let Some(more) = parse_cached("zzq := 5 + 1") {
                if let Ok(Ok(_)) = catch_unwind(AssertUnwindSafe(|| i.interpret(&more))) {
                  match catch_unwind(AssertUnwindSafe(|| i.compile())) {
                    Ok(Ok(b3)) => { out.evaluations += 1; out.nontrivial += 1; out.count("compile_after_more_source_checked"); check_emitted(&b3, &format!("{} ; compile() ; zzq := 5 + 1 ; compile()", case), ":compile-after-more-source", out); }
                    Ok(Err(_)) => out.count("compile_after_more_source_rejected"),
                    Err(e) => out.fail("C07|panic|compile-after-more-source".into(), case.clone(), panic_msg(e)),
                  }
                }
              }
            }
          }
        }
        if b % 5 == 0 { out.sample(json!({"program": src, "bytes": bytes.len()})); }
      }
      "trunc" => {
        let bytes = match self.emit(b) { Some(x) => x, None => return };
        for l in 0..bytes.len() {
          out.evaluations += 1; out.nontrivial += 1;
          match decode(&bytes[..l]) {
            Dec::Err => {}
            Dec::Ok => out.fail("C07|corruption-accepted|truncation".into(), format!("{} truncated to {} of {} bytes", name, l, bytes.len()), "accepted".into()),
            Dec::Panic(m) => out.fail("C07|panic|truncation".into(), format!("{} truncated to {} of {} bytes", name, l, bytes.len()), m),
          }
        }
      }
      "bits" => {
        // unit = a window of bit offsets; every single flip and every burst starting in the window
        let bytes = match self.emit(b) { Some(x) => x, None => return };
        let lo = unit as usize * BITS_PER_UNIT;
        let hi = (lo + BITS_PER_UNIT).min(bytes.len() * 8);
        let lmax = self.tier.pick(7, 10);
        for bit in lo..hi {
          for l in 1..=32usize {
            let pats = if l <= lmax { burst_patterns(l) } else if self.tier == Tier::Thorough || l == 32 || l == 16 { family_patterns(l) } else { continue };
            for pat in pats {
              if let Some(m) = apply_burst(&bytes, bit, pat, l) {
                out.evaluations += 1; out.nontrivial += 1;
                match decode(&m) {
                  Dec::Err => {}
                  Dec::Ok => out.fail(format!("C07|corruption-accepted|burst-{}:{}", l, section_of(&bytes, bit / 8)), format!("{}: bit {} burst length {} pattern {:#x}", name, bit, l, pat), "accepted".into()),
                  Dec::Panic(msg) => out.fail(format!("C07|panic|burst:{}", section_of(&bytes, bit / 8)), format!("{}: bit {} burst length {} pattern {:#x}", name, bit, l, pat), msg),
                }
              }
            }
          }
        }
      }
      "struct" => {
        // unit = a window of byte offsets; every width x boundary value, trailer recomputed
        let bytes = match self.emit(b) { Some(x) => x, None => return };
        let body = &bytes[..bytes.len() - 4];
        let lo = unit as usize * BYTES_PER_UNIT;
        let hi = (lo + BYTES_PER_UNIT).min(body.len());
        for off in lo..hi {
          for w in [1usize, 2, 4, 8] {
            if off + w > body.len() { continue; }
            let mut oldb = [0u8; 8]; oldb[..w].copy_from_slice(&body[off..off + w]);
            let old = u64::from_le_bytes(oldb);
            let maxw: u64 = if w == 8 { u64::MAX } else { (1u64 << (8 * w)) - 1 };
            let mut vals = vec![0u64, 1, old.wrapping_sub(1) & maxw, old.wrapping_add(1) & maxw, (bytes.len() as u64) & maxw, (body.len() as u64 - off as u64) & maxw, maxw, maxw >> 1, (maxw >> 1) + 1];
            if w >= 4 { vals.push(1 << 31); vals.push((1u64 << 32) - 1); vals.push(0x0001_0000); }
            if w == 8 { vals.push(1 << 32); vals.push(1 << 40); vals.push(1 << 47); vals.push(1 << 62); }
            vals.sort(); vals.dedup();
            for v in vals {
              if v == old { continue; }
              let mut m = body.to_vec();
              m[off..off + w].copy_from_slice(&v.to_le_bytes()[..w]);
              let m = with_trailer(m);
              if std::env::var("MC_C07_TRACE").is_ok() { eprintln!("struct {} off={} w={} v={:#x} old={:#x} sec={}", name, off, w, v, old, section_of(&bytes, off)); }
              out.evaluations += 1; out.nontrivial += 1;
              if let Dec::Panic(msg) = decode(&m) {
                out.fail(format!("C07|panic|{}", section_of(&bytes, off)), format!("{}: {} bytes at offset {} set to {:#x} (was {:#x}), trailer recomputed", name, w, off, v, old), msg);
              }
            }
          }
        }
      }
      "payload" => {
        // unit = one fill byte: the blob of every constant replaced by a run of that byte (and by the two-byte period fill,tag for every
        // kind tag <= 32) of growing length; table entry, header offsets and trailer rewritten so that only the payload is hostile
        let bytes = match self.emit(b) { Some(x) => x, None => return };
        let fill = unit as u8;
        let lens: Vec<usize> = self.tier.pick(vec![1, 5, 64, 4096, 65536], vec![1, 2, 5, 17, 64, 1024, 4096, 65536, 1 << 20]);
        let n_const = rd32(&bytes, 41) as usize;
        for ci in 0..n_const {
          for n in &lens {
            let mut blobs: Vec<(String, Vec<u8>)> = vec![(format!("{:#04x} x {}", fill, n), vec![fill; *n])];
            if *n >= 2 && fill <= 32 { for second in 0..=32u8 { if second != fill { blobs.push((format!("({:#04x},{:#04x}) x {}", fill, second, n / 2), (0..*n).map(|i| if i % 2 == 0 { fill } else { second }).collect())); } } }
            for (what, blob) in blobs {
              let m = match with_payload(&bytes, ci, &blob) { Some(m) => m, None => continue };
              out.evaluations += 1; out.nontrivial += 1;
              if let Dec::Panic(msg) = decode(&m) { out.fail("C07|panic|constant-payload".into(), format!("{}: payload of constant {} replaced by {}", name, ci, what), msg); }
            }
          }
        }
      }
      "tiny" => {
        // every byte string of length <= 2, and MECH-header prefixes padded with zeros, with and without a valid trailer
        let mut inputs: Vec<Vec<u8>> = vec![vec![]];
        for a in 0..=255u8 { inputs.push(vec![a]); }
        for a in 0..=255u8 { for c in 0..=255u8 { inputs.push(vec![a, c]); } }
        for k in 0..=140usize { let mut v = b"MECH".to_vec(); v.extend(std::iter::repeat(0u8).take(k)); inputs.push(v.clone()); inputs.push(with_trailer(v)); }
        for k in [1usize, 9, 129, 130] { for fill in [0xFFu8, 0x01, 0x80] { let mut v = b"MECH".to_vec(); v.extend(std::iter::repeat(fill).take(k)); inputs.push(with_trailer(v)); } }
        for m in inputs {
          out.evaluations += 1; out.nontrivial += 1;
          if let Dec::Panic(msg) = decode(&m) { out.fail("C07|panic|tiny-input".into(), format!("{} bytes: {:02x?}", m.len(), &m[..m.len().min(12)]), msg); }
        }
      }
      _ => {}
    }
  }
}

impl Check for C07 {
  fn id(&self) -> &'static str { "C07" }
  fn level(&self) -> &'static str { "fault_enumeration" }
  fn unit_budget(&self, _t: Tier) -> Duration { Duration::from_secs(10) }
  fn drive(&mut self, tier: Tier, cfg: &PoolCfg, rep: &mut Report) {
    let nb = self.progs.len();
    // pass 1 and 2: round trips in two different worker processes each (emitted bytes must be process independent)
    let mut sizes: Vec<Option<(usize, String)>> = vec![None; nb];
    for pass in 0..2 {
      let jobs: Vec<Job> = (0..nb).map(|b| Job { payload: format!("roundtrip {}", b), lo: pass as u64, hi: pass as u64 + 1 }).collect();
      let mut found: Vec<(usize, usize, String)> = vec![];
      run_jobs(cfg, jobs, &mut |ev| {
        if let Event::Done(_, o) = &ev { for x in &o.extra { found.push((x["base"].as_u64().unwrap() as usize, x["len"].as_u64().unwrap() as usize, x["fnv"].as_str().unwrap().to_string())); } }
        rep.absorb(ev);
      });
      rep.out.extra.clear();
      for (b, len, h) in found {
        match &sizes[b] {
          None => sizes[b] = Some((len, h)),
          Some((l0, h0)) => if *l0 != len || *h0 != h { rep.out.count("emitted_bytes_differ_between_processes(recorded, not judged)"); }
        }
      }
    }
    // fault enumeration
    let files: Vec<usize> = (0..nb).filter(|b| sizes[*b].is_some()).collect();
    let mut jobs = vec![];
    let struct_files: Vec<usize> = files.iter().cloned().filter(|b| tier == Tier::Thorough || b % 1 == 0).collect();
    let bit_files: Vec<usize> = files.iter().cloned().filter(|b| tier == Tier::Thorough || b % 2 == 0).collect();
    for b in &files {
      let len = sizes[*b].as_ref().unwrap().0;
      jobs.push(Job { payload: format!("trunc {}", b), lo: 0, hi: 1 });
      if bit_files.contains(b) { jobs.extend(range_jobs(&format!("bits {}", b), ((len * 8 + BITS_PER_UNIT - 1) / BITS_PER_UNIT) as u64, 1)); }
      if struct_files.contains(b) { jobs.extend(range_jobs(&format!("struct {}", b), ((len + BYTES_PER_UNIT - 1) / BYTES_PER_UNIT) as u64, 4)); }
    }
    // hostile constant payloads: every fill byte for every constant of every file
    for b in &files { jobs.extend(range_jobs(&format!("payload {}", b), 256, 16)); }
    jobs.push(Job { payload: "tiny 0".into(), lo: 0, hi: 1 });
    jobs.extend(range_jobs("corpus 0", 8, 1));
    let progs = self.progs.clone();
    rep.describe = Some(Box::new(move |p, u| {
      let mut it = p.split(' ');
      let mode = it.next().unwrap_or("").to_string();
      let b: usize = it.next().and_then(|x| x.parse().ok()).unwrap_or(0);
      (format!("{}", mode), format!("{} of base file '{}' ({}), unit {}", mode, progs.get(b).map(|x| x.0).unwrap_or("?"), progs.get(b).map(|x| x.1.replace('\n', " ; ")).unwrap_or_default(), u))
    }));
    drive_ranges(cfg, rep, jobs);
    rep.rule = format!("{} base files emitted by the compiler ({} compile); for every file: exact re-encoding + decode consistency in 4 decodes and 2 processes, every truncation length; for {} files every single-bit flip and every burst of <= {} bits (all patterns with both end bits set) at every bit offset plus pattern families (all ones, ends only, alternating, ends+one interior bit) for {} up to 32 bits; \
      for {} files every byte offset x width(1,2,4,8) x boundary value (0,1,old+-1,file length,remaining length,2^31,2^32-1,2^40,2^47,2^62,MAX...) with the CRC trailer recomputed; for every file and every constant the payload replaced by runs of each byte value (and two-byte periods over the kind tags) of length 1 .. 64 KiB (1 MiB thorough) with table entry, header and trailer rewritten; all byte strings of length <= 2 and MECH-prefixed zero/FF-padded inputs. \
      evaluations = mutants decoded (from_bytes then decode_const_entries); non-trivial = all of them (each has a verdict: must be rejected, or must not panic/abort/hang)",
      nb, files.len(), bit_files.len(), tier.pick(7, 10), if tier == Tier::Thorough { "every length" } else { "lengths 16 and 32" }, struct_files.len());
    rep.assumptions = vec![
      "workers run under a 4 GiB address-space cap: an allocation the loader cannot satisfy aborts the worker and is attributed to the unit (window of offsets) that caused it".into(),
      "bursts of 11..32 bits are covered by pattern families only (2^30 patterns per offset are not enumerable); a CRC-32 detects every burst <= 32 bits, so any accepted mutant is a loader defect".into(),
    ];
    rep.cov("bounds", json!({"base_files": nb, "compiled": files.len(), "bit_mutated_files": bit_files.len(), "structurally_mutated_files": struct_files.len()}));
    rep.exhaustive = true;
    if files.len() < 20 { rep.vacuity.push(format!("only {} base programs compiled", files.len())); }
  }
}
