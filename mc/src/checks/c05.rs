//! C05 — bindings are isolated; immutable means unchanged; failures change nothing.
//! Explicit-state BFS over statement histories of one session (names a, b, c). A state is the observed session
//! snapshot (names, mutability, values, alias partition); every transition replays the history in a fresh
//! interpreter and executes one more statement; frame conditions are judged between pre- and post-snapshot.
use super::*;
use crate::canon::Canon;
use crate::pool::*;
use crate::report::Report;
use crate::subject::*;
use mech_core::*;
use serde::{Deserialize, Serialize};
use serde_json::json;
use std::collections::{BTreeMap, BTreeSet, HashMap};

#[derive(Clone, Debug, PartialEq)]
pub enum K {
  /// n := literal (index into VALUES), mutable?
  DefLit(usize, bool),
  /// n := m
  DefCopy(bool),
  /// n := f(m)  (value not judged)
  DefDerived,
  AssignLit(usize),
  AssignName,
  AssignUndefined,
  IndexAssign,
  OpAssign,
  FieldAssign,
  /// (names) := (1, 2)   arity of the literal
  DestructLit(usize),
  /// (names) := m
  DestructName,
  /// a user function definition (binds no variable)
  FnDef,
  /// a bare call statement (binds no variable)
  BareCall,
}

#[derive(Clone, Debug)]
pub struct St { pub text: String, pub k: K, pub targets: Vec<&'static str>, pub reads: Vec<&'static str>, pub tmpl: &'static str }

pub const VALUES: [&str; 7] = ["1", "[1 2 3]", "\"s\"", "(1,2)", "{k: 1, v: \"q\"}", "{1,2}", "| x<f64> y<f64> | 1 2 | 3 4 |"];
pub const VNAMES: [&str; 7] = ["scalar", "matrix", "string", "tuple", "record", "set", "table"];
pub const ASSIGN_LITS: [&str; 3] = ["9", "\"t\"", "[7 8 9]"];

pub fn alphabet() -> Vec<St> {
  let mut v = vec![];
  let mut def = |n: &'static str, vi: usize, m: bool, v: &mut Vec<St>| v.push(St { text: format!("{}{} := {}", if m { "~" } else { "" }, n, VALUES[vi]), k: K::DefLit(vi, m), targets: vec![n], reads: vec![], tmpl: if m { "define-mutable-literal" } else { "define-literal" } });
  for vi in 0..7 { def("a", vi, false, &mut v); def("a", vi, true, &mut v); }
  for vi in 0..3 { def("b", vi, false, &mut v); def("b", vi, true, &mut v); }
  def("c", 0, false, &mut v); def("c", 0, true, &mut v);
  for (n, m) in [("a", "b"), ("a", "c"), ("b", "a"), ("b", "c"), ("c", "a"), ("c", "b")] {
    v.push(St { text: format!("{} := {}", n, m), k: K::DefCopy(false), targets: vec![n], reads: vec![m], tmpl: "define-copy" });
    v.push(St { text: format!("~{} := {}", n, m), k: K::DefCopy(true), targets: vec![n], reads: vec![m], tmpl: "define-mutable-copy" });
  }
  for (n, m) in [("b", "a"), ("c", "a"), ("c", "b")] {
    v.push(St { text: format!("{} := {} + 0", n, m), k: K::DefDerived, targets: vec![n], reads: vec![m], tmpl: "define-derived(+0)" });
    v.push(St { text: format!("{} := [{} {}]", n, m, m), k: K::DefDerived, targets: vec![n], reads: vec![m], tmpl: "define-derived(matrix-of)" });
    v.push(St { text: format!("{} := ({}, 2)", n, m), k: K::DefDerived, targets: vec![n], reads: vec![m], tmpl: "define-derived(tuple-of)" });
    v.push(St { text: format!("{} := {{{}}}", n, m), k: K::DefDerived, targets: vec![n], reads: vec![m], tmpl: "define-derived(set-of)" });
  }
  for n in ["a", "b"] {
    for (li, l) in ASSIGN_LITS.iter().enumerate() { v.push(St { text: format!("{} = {}", n, l), k: K::AssignLit(li), targets: vec![n], reads: vec![], tmpl: "assign-literal" }); }
  }
  for (n, m) in [("a", "b"), ("b", "a"), ("a", "c")] { v.push(St { text: format!("{} = {}", n, m), k: K::AssignName, targets: vec![n], reads: vec![m], tmpl: "assign-name" }); }
  // op-assignment whose right-hand side is another variable (all four operators; the source must stay as it is)
  for (n, m) in [("a", "b"), ("b", "a"), ("a", "c")] {
    for (op, t) in [("+=", "op-assign-name(+=)"), ("-=", "op-assign-name(-=)"), ("*=", "op-assign-name(*=)"), ("/=", "op-assign-name(/=)")] {
      v.push(St { text: format!("{} {} {}", n, op, m), k: K::OpAssign, targets: vec![n], reads: vec![m], tmpl: t });
    }
    v.push(St { text: format!("{}[1] *= {}", n, m), k: K::OpAssign, targets: vec![n], reads: vec![m], tmpl: "index-op-assign-name(*=)" });
  }
  for n in ["a", "b"] { for (op, t) in [("-=", "op-assign(-=)"), ("*=", "op-assign(*=)"), ("/=", "op-assign(/=)")] { v.push(St { text: format!("{} {} 2", n, op), k: K::OpAssign, targets: vec![n], reads: vec![], tmpl: t }); } }
  v.push(St { text: "zz = 4".into(), k: K::AssignUndefined, targets: vec![], reads: vec![], tmpl: "assign-undefined" });
  for n in ["a", "b"] {
    v.push(St { text: format!("{}[2] = 9", n), k: K::IndexAssign, targets: vec![n], reads: vec![], tmpl: "index-assign" });
    v.push(St { text: format!("{}[5] = 9", n), k: K::IndexAssign, targets: vec![n], reads: vec![], tmpl: "index-assign(out-of-range)" });
    v.push(St { text: format!("{}[[1 5]] = [7 8]", n), k: K::IndexAssign, targets: vec![n], reads: vec![], tmpl: "index-assign(partly-out-of-range)" });
    // an out-of-range position after, and between, valid ones: nothing may be written before the statement fails
    v.push(St { text: format!("{}[[1 5 2]] = 9", n), k: K::IndexAssign, targets: vec![n], reads: vec![], tmpl: "index-assign(out-of-range-inside-vector)" });
    v.push(St { text: format!("{}[[2 0 1]] = 9", n), k: K::IndexAssign, targets: vec![n], reads: vec![], tmpl: "index-assign(zero-inside-vector)" });
    v.push(St { text: format!("{}[[1 0]] += 9", n), k: K::IndexAssign, targets: vec![n], reads: vec![], tmpl: "index-op-assign(zero-after-valid)" });
    v.push(St { text: format!("{}[1] = \"s\"", n), k: K::IndexAssign, targets: vec![n], reads: vec![], tmpl: "index-assign(wrong-kind)" });
    v.push(St { text: format!("{} += 1", n), k: K::OpAssign, targets: vec![n], reads: vec![], tmpl: "op-assign" });
    if n == "b" {
      // an op-assignment that fails part-way: the second element of a u8 matrix overflows
      v.push(St { text: "~b<[u8]> := [1 250 3]".into(), k: K::DefDerived, targets: vec!["b"], reads: vec![], tmpl: "define-mutable-u8-matrix" });
      v.push(St { text: "b += 10u8".into(), k: K::OpAssign, targets: vec!["b"], reads: vec![], tmpl: "op-assign(overflow-in-second-element)" });
      v.push(St { text: "b[1..=2] += 10u8".into(), k: K::OpAssign, targets: vec!["b"], reads: vec![], tmpl: "index-op-assign(overflow-in-second-element)" });
    }
    v.push(St { text: format!("{}[1] += 1", n), k: K::OpAssign, targets: vec![n], reads: vec![], tmpl: "index-op-assign" });
    v.push(St { text: format!("{}.k = 5", n), k: K::FieldAssign, targets: vec![n], reads: vec![], tmpl: "field-assign" });
    v.push(St { text: format!("{}.zz = 5", n), k: K::FieldAssign, targets: vec![n], reads: vec![], tmpl: "field-assign(no-such-field)" });
    v.push(St { text: format!("{}.1 = 9", n), k: K::FieldAssign, targets: vec![n], reads: vec![], tmpl: "tuple-element-assign" });
  }
  v.push(St { text: "(b, c) := (1, 2)".into(), k: K::DestructLit(2), targets: vec!["b", "c"], reads: vec![], tmpl: "destructure" });
  v.push(St { text: "(a, b, c) := (1, 2)".into(), k: K::DestructLit(2), targets: vec!["a", "b", "c"], reads: vec![], tmpl: "destructure(arity-error)" });
  v.push(St { text: "(c, a) := (1, 2)".into(), k: K::DestructLit(2), targets: vec!["c", "a"], reads: vec![], tmpl: "destructure" });
  v.push(St { text: "(b, b) := (1, 2)".into(), k: K::DestructLit(2), targets: vec!["b", "b"], reads: vec![], tmpl: "destructure(repeated-name)" });
  v.push(St { text: "(c, b, c) := (1, 2, 1)".into(), k: K::DestructLit(3), targets: vec!["c", "b", "c"], reads: vec![], tmpl: "destructure(repeated-name)" });
  v.push(St { text: "(b, c) := a".into(), k: K::DestructName, targets: vec!["b", "c"], reads: vec!["a"], tmpl: "destructure-name" });
  // kind-annotated copies (the conversion step is what gives the new name its own storage)
  for (n, m, k) in [("b", "a", "f64"), ("c", "a", "f64"), ("b", "a", "string"), ("c", "b", "f64")] {
    v.push(St { text: format!("{}<{}> := {}", n, k, m), k: K::DefDerived, targets: vec![n], reads: vec![m], tmpl: "define-annotated-copy" });
  }
  v.push(St { text: "~b<f64> := a".into(), k: K::DefDerived, targets: vec!["b"], reads: vec!["a"], tmpl: "define-annotated-mutable-copy" });
  // user functions: a definition binds nothing; a call whose body fails (index out of range / overflow) must change nothing
  v.push(St { text: "g(i<f64>) = z<f64> := m := [10 20 30]; z := m[i].".into(), k: K::FnDef, targets: vec![], reads: vec![], tmpl: "function-define" });
  v.push(St { text: "h(x<u8>) = z<u8> := z := x + 200<u8>.".into(), k: K::FnDef, targets: vec![], reads: vec![], tmpl: "function-define" });
  // a body that fails with an ordinary error (an undefined variable), plain and match-arm form
  v.push(St { text: "k(n<f64>) = r<f64> := r := n + qq.".into(), k: K::FnDef, targets: vec![], reads: vec![], tmpl: "function-define" });
  v.push(St { text: "ka(n<f64>) => <f64>\n  | 0 => 1\n  | n => n + qq.".into(), k: K::FnDef, targets: vec![], reads: vec![], tmpl: "function-define" });
  v.push(St { text: "c := k(1)".into(), k: K::DefDerived, targets: vec!["c"], reads: vec![], tmpl: "define-call(body-errors)" });
  v.push(St { text: "c := ka(1)".into(), k: K::DefDerived, targets: vec!["c"], reads: vec![], tmpl: "define-call(arm-body-errors)" });
  v.push(St { text: "c := g(2)".into(), k: K::DefDerived, targets: vec!["c"], reads: vec![], tmpl: "define-call" });
  v.push(St { text: "c := g(7)".into(), k: K::DefDerived, targets: vec!["c"], reads: vec![], tmpl: "define-call(body-fails)" });
  v.push(St { text: "g(7)".into(), k: K::BareCall, targets: vec![], reads: vec![], tmpl: "call(body-fails)" });
  v.push(St { text: "c := h(100<u8>)".into(), k: K::DefDerived, targets: vec!["c"], reads: vec![], tmpl: "define-call(body-overflows)" });
  v
}

pub type Snap = Vec<(String, bool, Canon)>;

#[derive(Clone, Serialize, Deserialize, PartialEq, Eq, PartialOrd, Ord, Debug)]
pub struct State { pub snap: Snap, pub alias: Vec<Vec<String>>, #[serde(default)] pub fns: Vec<String> }

#[derive(Clone, Serialize, Deserialize)]
pub struct Entry { pub history: Vec<String>, pub state: State }
#[derive(Clone, Serialize, Deserialize)]
pub struct Level { pub entries: Vec<Entry> }

fn inner_addr(v: &Value) -> usize {
  match v { Value::MutableReference(r) => inner_addr(&r.borrow()), other => other.addr() }
}

pub fn observe(s: &Session) -> State {
  let snap = s.snapshot();
  let st = s.intrp.symbols();
  let st = st.borrow();
  let dict = st.dictionary.borrow();
  let mut by_addr: BTreeMap<usize, Vec<String>> = BTreeMap::new();
  for (id, cell) in st.symbols.iter() {
    let name = dict.get(id).cloned().unwrap_or_default();
    if name == "ans" { continue; }
    let a = std::panic::catch_unwind(std::panic::AssertUnwindSafe(|| inner_addr(&cell.borrow()))).unwrap_or(0);
    if a != 0 { by_addr.entry(a).or_default().push(name); }
  }
  let mut alias: Vec<Vec<String>> = by_addr.into_values().filter(|g| g.len() > 1).map(|mut g| { g.sort(); g }).collect();
  alias.sort();
  State { snap, alias, fns: vec![] }
}

pub const STMT_CHUNK: usize = 4;

pub struct C05 { tier: Tier, level: Option<(String, Level)>, alpha: Vec<St>, lit: HashMap<String, Option<Canon>> }

impl C05 {
  pub fn new(tier: Tier) -> C05 { C05 { tier, level: None, alpha: alphabet(), lit: HashMap::new() } }
  fn literal_value(&mut self, lit: &str) -> Option<Canon> {
    if let Some(c) = self.lit.get(lit) { return c.clone(); }
    let mut s = Session::new();
    let o = s.run(&format!("t := {}", lit));
    let c = if o.is_value() { s.get("t") } else { None };
    self.lit.insert(lit.to_string(), c.clone());
    c
  }
}

fn build(history: &[String]) -> Session {
  let mut s = Session::new();
  for h in history { s.run(h); }
  s
}

fn get<'a>(snap: &'a Snap, n: &str) -> Option<&'a (String, bool, Canon)> { snap.iter().find(|(x, _, _)| x == n) }

fn same_class(a: &Canon, b: &Canon) -> bool {
  match (a, b) {
    (Canon::Matrix(k1, r1, c1, _, _), Canon::Matrix(k2, r2, c2, _, _)) => k1 == k2 && r1 == r2 && c1 == c2,
    (Canon::Num(k1, _), Canon::Num(k2, _)) => k1 == k2,
    (Canon::Str(_), Canon::Str(_)) | (Canon::Bool(_), Canon::Bool(_)) => true,
    _ => false,
  }
}

impl C05 {
  /// every call of one standard-library function (or one operator spelling) over the operand pool of C19: an expression never changes
  /// an existing binding, a failed one changes nothing at all, and a successful `r := f(..)` adds exactly the name r
  fn stdlib_unit(&mut self, unit: u64, out: &mut WorkerOut) {
    use super::c19::{kernel_items, KERNEL_POOL};
    let items = kernel_items();
    let fname: &str = &items[unit as usize];
    let names: Vec<&str> = KERNEL_POOL.iter().map(|p| p.0).collect();
    let mut calls: Vec<String> = vec![];
    if let Some(op) = fname.strip_prefix("operator ") {
      match op {
        "-x" | "!x" => for x in &names { calls.push(format!("{}{}", &op[..op.len() - 1], x)); },
        "x'" => for x in &names { calls.push(format!("{}'", x)); },
        _ => for x in &names { for y in &names { calls.push(format!("{} {} {}", x, op, y)); } },
      }
    } else {
      for x in &names { calls.push(format!("{}({})", fname, x)); }
      for x in &names { for y in &names { calls.push(format!("{}({}, {})", fname, x, y)); } }
      for x in ["a", "h", "b", "c"] { for y in ["a", "h", "b", "c"] { for z in ["a", "k", "b"] { calls.push(format!("{}({}, {}, {})", fname, x, y, z)); } } }
    }
    let mut s = Session::new();
    for (_, d) in KERNEL_POOL.iter() { s.run(d); }
    let mut pre = s.snapshot();
    let pool_defs = "operand pool (a := 3.0; h := 0.5; b := [1 2 3]; cv; c; d; e; cw; g; gg; t; tt; s; bo; bv; u; ub; k; ~x := 2.0; ~y := [4 5 6])";
    for (i, c) in calls.iter().enumerate() {
      out.evaluations += 1;
      let rn = format!("r{}", (0..3).map(|k| (b'a' + ((i / 26usize.pow(k)) % 26) as u8) as char).collect::<String>());
      let st = format!("{} := {}", rn, c);
      let o = s.run(&st);
      let post = s.snapshot();
      out.nontrivial += 1;
      let case = format!("{} ;; {}", pool_defs, st);
      let mut changed = vec![];
      for (n, m, v) in &pre { match get(&post, n) { None => changed.push(format!("{} disappeared", n)), Some((_, m2, v2)) => { if v2 != v { changed.push(format!("{}{}: {} -> {}", if *m { "~" } else { "" }, n, v.short(), v2.short())); } else if m2 != m { changed.push(format!("{} mutability", n)); } } } }
      // a call of an op-assignment kernel by name is an op-assignment of its first argument: a mutable first argument may change
      if fname.contains("-assign") {
        let first = c.split('(').nth(1).unwrap_or("").split(|ch| ch == ',' || ch == ')').next().unwrap_or("").trim().to_string();
        changed.retain(|ch| !ch.starts_with(&format!("~{}:", first)));
      }
      let mut leaked = vec![];
      for (n, _, _) in &post { if get(&pre, n).is_none() && !(o.is_value() && n == &rn) { leaked.push(n.clone()); } }
      match &o {
        Outcome::Panic(m) => out.fail(format!("C05|abort|stdlib-call:{}", fname), case.clone(), format!("host panic: {}", m)),
        Outcome::Value(_) => { out.count("stdlib_calls_accepted"); out.set("stdlib_functions_called", fname); }
        _ => { out.count("stdlib_calls_rejected"); }
      }
      if !changed.is_empty() {
        let cls = if o.is_value() { if changed.iter().all(|c| c.starts_with('~')) { "alias-write-through" } else { "immutable-changed" } } else { "failed-but-modified" };
        out.fail(format!("C05|{}|stdlib-call:{}", cls, fname), case.clone(), format!("{} ({})", changed.join(", "), o.short()));
      }
      if !leaked.is_empty() { out.fail(format!("C05|names-leaked|stdlib-call:{}", fname), case.clone(), format!("unexpected new names {:?} ({})", leaked, o.short())); }
      if !changed.is_empty() || !leaked.is_empty() {
        // continue from a clean session so that one violation is not reported again for every later call
        s = Session::new();
        for (_, d) in KERNEL_POOL.iter() { s.run(d); }
        pre = s.snapshot();
      } else { pre = post; }
      if i == 0 && unit % 29 == 0 { out.sample(json!({"stdlib_call": st, "outcome": o.short()})); }
    }
  }
}

impl UnitRunner for C05 {
  fn unit(&mut self, payload: &str, unit: u64, out: &mut WorkerOut) {
    if payload == "stdlib" { return self.stdlib_unit(unit, out); }
    if payload == "define-kinds" { return define_kinds_unit(unit, out); }
    if !matches!(&self.level, Some((k, _)) if k == payload) {
      let txt = std::fs::read_to_string(payload).expect("level file");
      self.level = Some((payload.to_string(), serde_json::from_str::<Level>(&txt).unwrap()));
    }
    let level = self.level.as_ref().unwrap().1.clone();
    let alpha = self.alpha.clone();
    let lo = unit as usize * STMT_CHUNK;
    let hi = (lo + STMT_CHUNK).min(alpha.len());
    for (ei, e) in level.entries.iter().enumerate() {
      let mut sess: Option<Session> = None;
      for si in lo..hi {
        let st = &alpha[si];
        out.evaluations += 1;
        let mut attempt = 0;
        loop {
          attempt += 1;
          let fresh = sess.is_none();
          if sess.is_none() { sess = Some(build(&e.history)); }
          let s = sess.as_mut().unwrap();
          let fn_defs = |hist: &[String], extra: Option<&str>| -> Vec<String> {
            let mut f: Vec<String> = hist.iter().filter(|h| alpha.iter().any(|a| &a.text == *h && a.k == K::FnDef)).cloned().collect();
            if let Some(x) = extra { f.push(x.to_string()); }
            f.sort(); f.dedup(); f
          };
          let mut pre = observe(s);
          pre.fns = fn_defs(&e.history, None);
          if pre != e.state {
            if fresh {
              // the same history gives another state in this process: evaluation is not a function of the history
              if pre.snap != e.state.snap { out.fail("C05|nondeterministic-replay|history".into(), format!("{:?}", e.history), format!("recorded {:?} replay {:?}", e.state.snap.iter().map(|x| (&x.0, x.2.short())).collect::<Vec<_>>(), pre.snap.iter().map(|x| (&x.0, x.2.short())).collect::<Vec<_>>())); sess = None; break; }
            } else { sess = None; continue; }
          }
          let mut local = WorkerOut::default();
          let o = s.run(&st.text);
          let mut post = observe(s);
          post.fns = fn_defs(&e.history, if st.k == K::FnDef && o.is_value() { Some(&st.text) } else { None });
          let locus = st.tmpl.to_string();
          // for aliasing findings the locus names how the victim was bound and how the write happened
          let bound_by = |victim: &str| -> &'static str {
            for h in e.history.iter().rev() {
              if let Some(sh) = alpha.iter().find(|s| &s.text == h) {
                if matches!(sh.k, K::DefLit(..) | K::DefCopy(..) | K::DefDerived | K::DestructLit(..) | K::DestructName) && sh.targets.contains(&victim) { return sh.tmpl; }
              }
            }
            "?"
          };
          let case = format!("{} ;; {}", e.history.join("; "), st.text);
          // ---- binding rules decided from the pre-state
          let defined = |n: &str| get(&pre.snap, n).is_some();
          let mutable = |n: &str| get(&pre.snap, n).map(|x| x.1).unwrap_or(false);
          let reads_ok = st.reads.iter().all(|n| defined(n));
          let (must_fail, surely_valid, expected): (bool, bool, Vec<(String, Option<Canon>, Option<bool>)>) = match &st.k {
            K::DefLit(vi, m) => { let n = st.targets[0]; (defined(n), !defined(n), vec![(n.to_string(), self.literal_value(VALUES[*vi]), Some(*m))]) }
            K::DefCopy(m) => { let n = st.targets[0]; let src = get(&pre.snap, st.reads[0]).map(|x| x.2.clone()); (defined(n) || !reads_ok, !defined(n) && reads_ok, vec![(n.to_string(), src, Some(*m))]) }
            K::DefDerived => { let n = st.targets[0]; (defined(n) || !reads_ok, false, vec![(n.to_string(), None, Some(st.text.starts_with('~')))]) }
            K::AssignLit(li) => {
              let n = st.targets[0];
              let lv = self.literal_value(ASSIGN_LITS[*li]);
              let fits = match (get(&pre.snap, n), &lv) { (Some(x), Some(l)) => same_class(&x.2, l), _ => false };
              (!defined(n) || !mutable(n), defined(n) && mutable(n) && fits, vec![(n.to_string(), if fits { lv } else { None }, None)])
            }
            K::AssignName => {
              let n = st.targets[0];
              let src = get(&pre.snap, st.reads[0]).map(|x| x.2.clone());
              let fits = match (get(&pre.snap, n), &src) { (Some(x), Some(l)) => same_class(&x.2, l), _ => false };
              (!defined(n) || !mutable(n) || !reads_ok, defined(n) && mutable(n) && fits, vec![(n.to_string(), if fits { src } else { None }, None)])
            }
            K::AssignUndefined => (true, false, vec![]),
            K::FnDef | K::BareCall => (false, false, vec![]),
            K::IndexAssign | K::OpAssign | K::FieldAssign => { let n = st.targets[0]; (!defined(n) || !mutable(n) || !reads_ok, false, vec![(n.to_string(), None, None)]) }
            K::DestructLit(arity) => {
              let any_def = st.targets.iter().any(|n| defined(n));
              let repeated = st.targets.iter().enumerate().any(|(i, n)| st.targets[..i].contains(n));
              let bad = any_def || st.targets.len() != *arity || repeated;
              let vals = [Canon::Num("f64".into(), "1.0".into()), Canon::Num("f64".into(), "2.0".into())];
              (bad, !bad, st.targets.iter().enumerate().map(|(i, n)| (n.to_string(), vals.get(i).cloned(), Some(false))).collect())
            }
            K::DestructName => {
              let any_def = st.targets.iter().any(|n| defined(n));
              let src = get(&pre.snap, st.reads[0]).map(|x| x.2.clone());
              let (ok_tuple, vals) = match &src { Some(Canon::Tuple(v)) if v.len() == st.targets.len() => (true, v.clone()), _ => (false, vec![]) };
              let bad = any_def || !reads_ok || !ok_tuple;
              (bad, !bad, st.targets.iter().enumerate().map(|(i, n)| (n.to_string(), vals.get(i).cloned(), Some(false))).collect())
            }
          };
          // ---- judge
          match &o {
            Outcome::Panic(m) => local.fail(format!("C05|abort|{}", locus), case.clone(), format!("host panic: {}", m)),
            Outcome::Value(_) if must_fail => {
              local.nontrivial += 1;
              local.fail(format!("C05|bad-statement-accepted|{}", locus), case.clone(), "the binding rules require an error (redefinition / undefined / immutable / arity)".into());
            }
            Outcome::Value(_) => {
              local.nontrivial += 1;
              // frame: every name that is not a target keeps value and mutability
              for (n, m, c) in &pre.snap {
                if st.targets.contains(&n.as_str()) { continue; }
                match get(&post.snap, n) {
                  None => local.fail(format!("C05|names-leaked|{}", locus), case.clone(), format!("{} disappeared", n)),
                  Some((_, m2, c2)) => {
                    if c2 != c {
                      let cls = if *m { "alias-write-through" } else { "immutable-changed" };
                      local.fail(format!("C05|{}|{} then {}", cls, bound_by(n.as_str()), st.tmpl), case.clone(), format!("{}{} was {} and is now {}", if *m { "~" } else { "" }, n, c.short(), c2.short()));
                    } else if m2 != m { local.fail(format!("C05|mutability-changed|{}", locus), case.clone(), format!("{}", n)); }
                  }
                }
              }
              // an existing immutable target must not change either (only reachable when must_fail was false, i.e. never) — defensive
              // names: nothing but the targets may appear
              for (n, _, _) in &post.snap {
                if get(&pre.snap, n).is_none() && !st.targets.contains(&n.as_str()) { local.fail(format!("C05|names-leaked|{}", locus), case.clone(), format!("unexpected new name {}", n)); }
              }
              // a newly bound name that shares its storage with another name, one of them mutable, is isolation already lost:
              // the next write through the mutable name is seen through the other (reported here so that the history that
              // created the sharing is the one identified, whatever equivalent state the search continues from)
              if matches!(st.k, K::DefLit(..) | K::DefCopy(..) | K::DefDerived | K::DestructLit(..) | K::DestructName) {
                for t in &st.targets {
                  if let Some(g) = post.alias.iter().find(|g| g.iter().any(|x| x == t)) {
                    for other in g.iter().filter(|x| x.as_str() != *t) {
                      let t_mut = get(&post.snap, t).map(|x| x.1).unwrap_or(false);
                      let o_mut = get(&post.snap, other).map(|x| x.1).unwrap_or(false);
                      if t_mut || o_mut { local.fail(format!("C05|storage-shared|{}", st.tmpl), case.clone(), format!("{} shares its storage with {}{}", t, if o_mut { "~" } else { "" }, other)); }
                    }
                  }
                }
              }
              for (n, want, wm) in &expected {
                match get(&post.snap, n) {
                  None => { if matches!(st.k, K::DefLit(..) | K::DefCopy(..) | K::DefDerived | K::DestructLit(..) | K::DestructName) { local.fail(format!("C05|binding-wrong|{}", locus), case.clone(), format!("{} is not defined after a successful definition", n)); } }
                  Some((_, m2, c2)) => {
                    if let Some(w) = want { if w != c2 { local.fail(format!("C05|binding-wrong|{}", locus), case.clone(), format!("{} should be {} and is {}", n, w.short(), c2.short())); } }
                    if let Some(wm) = wm { if wm != m2 { local.fail(format!("C05|binding-wrong|{}", locus), case.clone(), format!("{} mutability should be {}", n, wm)); } }
                  }
                }
              }
            }
            _ => {
              // Error / ParseError: nothing may have changed
              local.nontrivial += 1;
              if post.snap != pre.snap {
                let mut what = vec![];
                for (n, _, c) in &post.snap { match get(&pre.snap, n) { None => what.push(format!("{} appeared", n)), Some((_, _, c0)) if c0 != c => what.push(format!("{}: {} -> {}", n, c0.short(), c.short())), _ => {} } }
                for (n, _, _) in &pre.snap { if get(&post.snap, n).is_none() { what.push(format!("{} disappeared", n)); } }
                let leaked = what.iter().any(|w| w.ends_with("appeared"));
                local.fail(format!("C05|{}|{}", if leaked { "names-leaked" } else { "failed-but-modified" }, locus), case.clone(), format!("statement failed ({}) but {}", o.short(), what.join(", ")));
              }
              if surely_valid { local.fail(format!("C05|good-statement-rejected|{}", locus), case.clone(), format!("{}", o.short())); }
            }
          }
          if !local.failures.is_empty() && !fresh && attempt < 2 { sess = None; continue; }
          out.merge(local);
          out.extra.push(json!({"from": ei, "stmt": st.text, "state": post, "ok": o.is_value()}));
          if ei == 0 && si % 7 == 0 { out.sample(json!({"history": e.history, "statement": st.text, "outcome": o.short()})); }
          // a failed statement that left the snapshot untouched lets the session be reused; anything else needs a rebuild
          if o.is_value() || post.snap != pre.snap || post.alias != pre.alias { sess = None; }
          break;
        }
      }
    }
  }
}

fn template_of(alpha: &[St], text: &str) -> &'static str { alpha.iter().find(|s| s.text == text).map(|s| s.tmpl).unwrap_or("?") }

impl Check for C05 {
  fn id(&self) -> &'static str { "C05" }
  fn level(&self) -> &'static str { "model_checking" }
  fn unit_budget(&self, _t: Tier) -> Duration { Duration::from_secs(300) }
  fn drive(&mut self, tier: Tier, cfg: &PoolCfg, rep: &mut Report) {
    let depth = tier.pick(3, 4);
    let cap: usize = tier.pick(600, 3000);
    let alpha = alphabet();
    let nunits = ((alpha.len() + STMT_CHUNK - 1) / STMT_CHUNK) as u64;
    let scratch = format!("{}/target/c05-levels", crate::report::verif_dir());
    let _ = std::fs::create_dir_all(&scratch);
    let init = State { snap: vec![], alias: vec![], fns: vec![] };
    let mut seen: BTreeSet<State> = BTreeSet::new();
    seen.insert(init.clone());
    let mut frontier = vec![Entry { history: vec![], state: init }];
    let mut transitions = 0u64;
    let mut per_depth = vec![];
    let mut capped_at: Option<usize> = None;
    for d in 0..depth {
      let level = Level { entries: frontier.clone() };
      let path = format!("{}/{}-d{}.json", scratch, tier.name(), d);
      std::fs::write(&path, serde_json::to_string(&level).unwrap()).unwrap();
      let mut next: BTreeMap<State, Vec<String>> = BTreeMap::new();
      run_jobs(cfg, range_jobs(&path, nunits, 1), &mut |ev| {
        if let Event::Done(_j, o) = &ev {
          for x in &o.extra {
            transitions += 1;
            if let Ok(st) = serde_json::from_value::<State>(x["state"].clone()) {
              if !seen.contains(&st) {
                let from = x["from"].as_u64().unwrap_or(0) as usize;
                let mut h = level.entries[from].history.clone();
                h.push(x["stmt"].as_str().unwrap_or("").to_string());
                let e = next.entry(st).or_insert(h.clone());
                if (h.len(), &h) < (e.len(), &*e) { *e = h; }
              }
            }
          }
        }
        rep.absorb(ev);
      });
      rep.out.extra.clear();
      per_depth.push(json!({"depth": d + 1, "frontier_states": frontier.len(), "new_states": next.len()}));
      let mut nf: Vec<Entry> = next.into_iter().map(|(s, h)| Entry { history: h, state: s }).collect();
      for e in &nf { seen.insert(e.state.clone()); }
      if d + 1 < depth && nf.len() > cap { capped_at = Some(d + 2); nf.sort_by(|a, b| a.history.cmp(&b.history)); nf.truncate(cap); }
      frontier = nf;
    }
    // every registered standard-library function and operator spelling, called on the bindings of a fixed session
    let nk = super::c19::kernel_items().len() as u64;
    let before_calls = rep.out.evaluations;
    run_jobs(cfg, range_jobs("stdlib", nk, 1), &mut |ev| rep.absorb(ev));
    run_jobs(cfg, range_jobs("define-kinds", 16, 1), &mut |ev| rep.absorb(ev));
    rep.out.extra.clear();
    let called = rep.out.sets.get("stdlib_functions_called").map(|s| s.len()).unwrap_or(0);
    rep.cov("stdlib_call_family", json!({"functions_and_operator_spellings": nk, "with_an_accepted_call": called, "calls": rep.out.evaluations - before_calls,
      "oracle": "every existing binding keeps value and mutability, a failed call changes nothing, a successful r := f(..) adds exactly r"}));
    if called < 60 { rep.vacuity.push(format!("only {} standard-library functions had an accepted call", called)); }
    rep.cov("states", json!(seen.len()));
    rep.cov("transitions", json!(transitions));
    rep.cov("traces_validated_against_impl", json!(transitions));
    rep.cov("per_depth", json!(per_depth));
    rep.cov("bounds", json!({"names": ["a", "b", "c"], "alphabet": alpha.len(), "depth": depth, "frontier_cap": cap, "depth_not_fully_expanded": capped_at}));
    rep.exhaustive = capped_at.is_none();
    rep.rule = format!("breadth-first search from the empty session over histories of up to {} statements from an alphabet of {} (defines of every value class, copies of another name, derived values, whole/indexed/field/op assignment incl. out-of-range, wrong kind, undefined and immutable targets, tuple destructuring incl. arity and redefinition errors); \
      a state is the observed session: names, mutability, canonical values, alias partition; every transition replays the history in a fresh interpreter and executes one statement; \
      evaluations = transitions; non-trivial = transitions judged (all of them: success -> frame + binding rules, failure -> nothing changed)", depth, alpha.len());
    rep.assumptions = vec![
      "values of derived expressions and of indexed/op/field assignments are adopted from the implementation (C01/C04 judge them); only binding rules, frame conditions and failure atomicity are judged here".into(),
      "sharing that can never be observed through another name is not a violation; the alias partition is part of the state key only".into(),
      "there is no separate model: traces_validated_against_impl = transitions executed on the real interpreter".into(),
    ];
    if transitions < 500 { rep.vacuity.push("too few transitions".into()); }
  }
}

/// Definitions of every element kind in every definition form, each in a session that already holds bindings: a definition that succeeds
/// defines exactly its names, one that fails for any reason (an unsupported kind included) defines nothing and changes nothing, and a
/// definition of an existing name is rejected whatever its form.
fn define_kinds_unit(unit: u64, out: &mut WorkerOut) {
  let kinds = ["u8", "u16", "u32", "u64", "u128", "i8", "i16", "i32", "i64", "i128", "f32", "f64", "r64", "c64", "bool", "string"];
  let kind = kinds[unit as usize % kinds.len()];
  let lit = match kind { "bool" => "true", "string" => "\"s\"", "r64" => "3/4", "c64" => "1+2i", "f32" | "f64" => "2.5", _ => "5" };
  let ann = |name: &str, shape: &str| match kind { "r64" | "c64" | "bool" | "string" => format!("{} := ", name), _ => format!("{}<{}{}> := ", name, if shape.is_empty() { kind.to_string() } else { format!("[{}]", kind) }, shape) };
  let forms: Vec<(&str, String)> = vec![
    ("define-scalar", format!("{}{}", ann("a", ""), lit)),
    ("define-mutable-scalar", format!("~{}{}", ann("a", ""), lit)),
    ("define-matrix", format!("{}[{} {} {}]", ann("a", " "), lit, lit, lit).replace("[ ", "[").replace(" ]>", "]>")),
    ("define-sized-matrix", format!("{}[{} {} {}]", ann("a", ":1,3"), lit, lit, lit)),
    ("define-column", format!("{}[{}; {}]", ann("a", " "), lit, lit).replace(" ]>", "]>")),
    ("define-from-typed-variable", "a := k".to_string()),
    ("define-mutable-from-typed-variable", "~a := k".to_string()),
    ("define-from-formula", if kind == "bool" { "a := k && k".to_string() } else if kind == "string" { "a := k == k".to_string() } else { "a := k + k".to_string() }),
    ("define-matrix-from-variable", "a := [k k]".to_string()),
    ("define-tuple", "a := (k, 1)".to_string()),
    ("define-set", "a := {k}".to_string()),
    ("destructure", "(a, c) := (k, k)".to_string()),
    ("define-annotated-from-variable", format!("{}k", ann("a", ""))),
  ];
  for (fname, stmt) in forms.iter() {
    for pre_defined in [false, true] {
      let mut s = Session::new();
      // the operand variable is itself a definition of this kind: judged like the others
      let ok = s.run(&format!("{}{}", ann("k", ""), lit));
      if !ok.is_value() {
        out.count("define_kinds_operand_rejected");
        if !s.snapshot().is_empty() { out.fail(format!("C05|failed-but-modified|define-kinds:define-scalar:{}", kind), format!("{}{}", ann("k", ""), lit), format!("the statement failed ({}) but left {:?}", ok.short(), s.snapshot().iter().map(|x| format!("{}={}", x.0, x.2.short())).collect::<Vec<_>>())); }
        if stmt.contains('k') { continue; }
      }
      s.run("w := [1 2 3]"); s.run("~v := 7");
      if pre_defined { s.run("a := 100"); }
      let before = s.snapshot();
      out.evaluations += 1; out.nontrivial += 1;
      let o = s.run(stmt);
      let after = s.snapshot();
      let case = format!("{}{} ; w := [1 2 3] ; ~v := 7 ; {}{}", ann("k", ""), lit, if pre_defined { "a := 100 ; " } else { "" }, stmt);
      let locus = format!("{}:{}", fname, kind);
      match &o {
        Outcome::Panic(m) => out.fail(format!("C05|abort|define-kinds:{}", locus), case, m.clone()),
        Outcome::Value(_) => {
          if pre_defined { out.fail(format!("C05|redefinition-accepted|define-kinds:{}", locus), case, format!("a was already defined; now {:?}", after.iter().find(|x| x.0 == "a").map(|x| x.2.short()))); }
          else {
            let others_same = before.iter().all(|b| after.iter().any(|a| a == b));
            if !others_same { out.fail(format!("C05|other-binding-changed|define-kinds:{}", locus), case, format!("before {:?}, after {:?}", before.iter().map(|x| format!("{}={}", x.0, x.2.short())).collect::<Vec<_>>(), after.iter().map(|x| format!("{}={}", x.0, x.2.short())).collect::<Vec<_>>())); }
            else if !after.iter().any(|x| x.0 == "a") { out.fail(format!("C05|binding-wrong|define-kinds:{}", locus), case, "the definition succeeded but a is not defined".into()); }
            else { out.count("define_kinds_defined"); }
          }
        }
        _ => {
          if after != before { out.fail(format!("C05|failed-but-modified|define-kinds:{}", locus), case, format!("the statement failed ({}) but the bindings changed: before {:?}, after {:?}", o.short(), before.iter().map(|x| format!("{}={}", x.0, x.2.short())).collect::<Vec<_>>(), after.iter().map(|x| format!("{}={}", x.0, x.2.short())).collect::<Vec<_>>())); }
          else { out.count(if pre_defined { "define_kinds_redefinition_rejected" } else { "define_kinds_rejected_cleanly" }); }
        }
      }
    }
  }
}
