//! C16 — function and match arms: the first arm that matches runs. unit = one generated definition (function or match
//! template) evaluated over its whole small argument domain in one session.
use super::*;
use crate::canon::Canon;
use crate::pool::*;
use crate::report::Report;
use crate::subject::*;
use serde_json::json;

/// tiny pattern language of the reference evaluator
#[derive(Clone, Debug)]
pub enum Pat { Lit(i64), Var(&'static str), Wild, Tup(Vec<Pat>), VecExact(Vec<Pat>), VecHead(Vec<Pat>), VecTail(Vec<Pat>), /// fixed prefix, spread, fixed suffix: needs at least prefix + suffix elements
  VecEnds(Vec<Pat>, Vec<Pat>), VecEmpty }

#[derive(Clone, Debug)]
pub enum V { N(i64), T(Vec<V>), Vc(Vec<i64>) }

#[derive(Clone, Debug)]
pub enum Body { Const(i64), /// a*var + b
  Lin(&'static str, i64, i64), /// var1*a + var2
  Lin2(&'static str, i64, &'static str) }

#[derive(Clone, Debug)]
pub enum Guard { None, Gt(&'static str, i64), Lt(&'static str, i64), Eq(&'static str, i64), GtV(&'static str, &'static str) }

#[derive(Clone, Debug)]
pub struct Arm { pub text: &'static str, pub pat: Pat, pub guard: Guard, pub body: Body }

type Env = Vec<(&'static str, i64)>;

fn bind(env: &mut Env, n: &'static str, v: i64) -> bool {
  if let Some((_, old)) = env.iter().find(|(k, _)| *k == n) { return *old == v; }   // a repeated variable is an equality constraint
  env.push((n, v));
  true
}

pub fn matches(p: &Pat, v: &V, env: &mut Env) -> bool {
  match (p, v) {
    (Pat::Wild, _) => true,
    (Pat::Lit(k), V::N(x)) => k == x,
    (Pat::Var(n), V::N(x)) => bind(env, n, *x),
    (Pat::Tup(ps), V::T(vs)) => ps.len() == vs.len() && ps.iter().zip(vs.iter()).all(|(p, v)| matches(p, v, env)),
    (Pat::VecEmpty, V::Vc(x)) => x.is_empty(),
    (Pat::VecExact(ps), V::Vc(x)) => ps.len() == x.len() && ps.iter().zip(x.iter()).all(|(p, v)| matches(p, &V::N(*v), env)),
    (Pat::VecHead(ps), V::Vc(x)) => ps.len() <= x.len() && ps.iter().zip(x.iter()).all(|(p, v)| matches(p, &V::N(*v), env)),
    (Pat::VecEnds(pre, suf), V::Vc(x)) => pre.len() + suf.len() <= x.len() && pre.iter().zip(x.iter()).all(|(p, v)| matches(p, &V::N(*v), env)) && suf.iter().zip(x[x.len() - suf.len()..].iter()).all(|(p, v)| matches(p, &V::N(*v), env)),
    (Pat::VecTail(ps), V::Vc(x)) => ps.len() <= x.len() && ps.iter().zip(x[x.len() - ps.len()..].iter()).all(|(p, v)| matches(p, &V::N(*v), env)),
    _ => false,
  }
}

fn get(env: &Env, n: &str) -> Option<i64> { env.iter().find(|(k, _)| *k == n).map(|x| x.1) }

pub fn guard_ok(g: &Guard, env: &Env) -> Option<bool> {
  Some(match g { Guard::None => true, Guard::Gt(n, k) => get(env, n)? > *k, Guard::Lt(n, k) => get(env, n)? < *k, Guard::Eq(n, k) => get(env, n)? == *k, Guard::GtV(a, b) => get(env, a)? > get(env, b)? })
}

pub fn body_val(b: &Body, env: &Env) -> Option<i64> {
  Some(match b { Body::Const(k) => *k, Body::Lin(n, a, c) => get(env, n)? * a + c, Body::Lin2(x, a, y) => { let (yn, add) = split_name(y); get(env, x)? * a + get(env, yn)? + add } })
}

/// first arm in source order whose pattern matches and whose guard holds; None = no arm
pub fn reference(arms: &[Arm], v: &V, params: &Env) -> Option<i64> {
  for a in arms {
    let mut env = params.clone();
    // pattern variables shadow parameter names
    let mut penv: Env = vec![];
    if matches(&a.pat, v, &mut penv) {
      for (k, x) in penv { if let Some(e) = env.iter_mut().find(|(n, _)| *n == k) { e.1 = x; } else { env.push((k, x)); } }
      if guard_ok(&a.guard, &env) == Some(true) { return body_val(&a.body, &env); }
    }
  }
  None
}

fn ordered_selections(n: usize, max: usize) -> Vec<Vec<usize>> {
  let mut out = vec![];
  fn rec(n: usize, max: usize, cur: &mut Vec<usize>, out: &mut Vec<Vec<usize>>) {
    if !cur.is_empty() { out.push(cur.clone()); }
    if cur.len() == max { return; }
    for i in 0..n { if !cur.contains(&i) { cur.push(i); rec(n, max, cur, out); cur.pop(); } }
  }
  rec(n, max, &mut vec![], &mut out);
  out
}

fn glyphs(arms: &[&str]) -> String {
  let n = arms.len();
  arms.iter().enumerate().map(|(i, a)| format!("  {} {}{}", if i + 1 == n { "└" } else { "├" }, a, if i + 1 == n { "." } else { "" })).collect::<Vec<_>>().join("\n")
}

#[derive(Clone)]
pub struct Case { pub family: &'static str, pub def: String, /// (statement text using result name r{i}, expected: Some(value) / None = must be an error, judged?)
  pub calls: Vec<(String, Expect)>, pub locus: String }

#[derive(Clone, Debug)]
pub enum Expect { Val(String), Matrix(usize, usize, Vec<String>), MustError, ValOrError(String), Unjudged }

fn f64s(v: i64) -> String { crate::canon::f64_text(v as f64) }

pub fn cases(tier: Tier) -> Vec<Case> {
  let mut out = vec![];
  let maxsel = tier.pick(3, 4);
  // (A) one f64 argument
  let p1 = vec![
    Arm { text: "0 => 10", pat: Pat::Lit(0), guard: Guard::None, body: Body::Const(10) },
    Arm { text: "1 => 11", pat: Pat::Lit(1), guard: Guard::None, body: Body::Const(11) },
    Arm { text: "2 => 12", pat: Pat::Lit(2), guard: Guard::None, body: Body::Const(12) },
    Arm { text: "n => n * 2 + 100", pat: Pat::Var("n"), guard: Guard::None, body: Body::Lin("n", 2, 100) },
    Arm { text: "* => 99", pat: Pat::Wild, guard: Guard::None, body: Body::Const(99) },
  ];
  for sel in ordered_selections(p1.len(), maxsel) {
    let arms: Vec<Arm> = sel.iter().map(|i| p1[*i].clone()).collect();
    let def = format!("f(n<f64>) => <f64>\n{}", glyphs(&arms.iter().map(|a| a.text).collect::<Vec<_>>()));
    let mut calls = vec![];
    let dom = [0i64, 1, 2, 3];
    for x in dom { let e = match reference(&arms, &V::N(x), &vec![("n", x)]) { Some(v) => Expect::Val(f64s(v)), None => Expect::MustError }; calls.push((format!("f({})", x), e)); }
    calls.push(("f(1, 2)".into(), Expect::MustError));
    calls.push(("f()".into(), Expect::MustError));
    // broadcast over a matrix: elementwise application (only when every element has an arm)
    let elems: Vec<Option<i64>> = dom.iter().map(|x| reference(&arms, &V::N(*x), &vec![("n", *x)])).collect();
    if elems.iter().all(|e| e.is_some()) {
      calls.push(("f([0 1 2 3])".into(), Expect::Matrix(1, 4, elems.iter().map(|e| f64s(e.unwrap())).collect())));
      calls.push(("f([0 1; 2 3])".into(), Expect::Matrix(2, 2, elems.iter().map(|e| f64s(e.unwrap())).collect())));
    }
    out.push(Case { family: "fn-1arg", def, calls, locus: format!("fn:{}", sel.iter().map(|i| ["lit", "lit", "lit", "var", "wild"][*i]).collect::<Vec<_>>().join(",")) });
  }
  // (B) two f64 arguments, tuple patterns incl. a repeated variable
  let p2 = vec![
    Arm { text: "(0, *) => 100", pat: Pat::Tup(vec![Pat::Lit(0), Pat::Wild]), guard: Guard::None, body: Body::Const(100) },
    Arm { text: "(*, 0) => 200", pat: Pat::Tup(vec![Pat::Wild, Pat::Lit(0)]), guard: Guard::None, body: Body::Const(200) },
    Arm { text: "(a, a) => 300 + a", pat: Pat::Tup(vec![Pat::Var("a"), Pat::Var("a")]), guard: Guard::None, body: Body::Lin("a", 1, 300) },
    Arm { text: "(a, b) => a * 10 + b", pat: Pat::Tup(vec![Pat::Var("a"), Pat::Var("b")]), guard: Guard::None, body: Body::Lin2("a", 10, "b") },
    Arm { text: "(*, *) => 999", pat: Pat::Tup(vec![Pat::Wild, Pat::Wild]), guard: Guard::None, body: Body::Const(999) },
    Arm { text: "(b, a) => a * 10 + b + 5000", pat: Pat::Tup(vec![Pat::Var("b"), Pat::Var("a")]), guard: Guard::None, body: Body::Lin2("a", 10, "b5000") },
    // the bare wildcard 'matches anything': also the argument list of a function of two parameters
    Arm { text: "* => 777", pat: Pat::Wild, guard: Guard::None, body: Body::Const(777) },
  ];
  for sel in ordered_selections(p2.len(), tier.pick(2, 3)) {
    let arms: Vec<Arm> = sel.iter().map(|i| p2[*i].clone()).collect();
    let def = format!("g(x<f64>, y<f64>) => <f64>\n{}", glyphs(&arms.iter().map(|a| a.text).collect::<Vec<_>>()));
    let mut calls = vec![];
    for (x, y) in [(0i64, 0i64), (0, 1), (1, 0), (1, 1), (2, 2), (1, 2), (2, 1)] {
      let r = reference2(&arms, x, y);
      calls.push((format!("g({}, {})", x, y), match r { Some(v) => Expect::Val(f64s(v)), None => Expect::MustError }));
    }
    calls.push(("g(1)".into(), Expect::MustError));
    calls.push(("g(1, 2, 3)".into(), Expect::MustError));
    out.push(Case { family: "fn-2arg", def, calls, locus: format!("fn2:{}", sel.iter().map(|i| ["lit-wild", "wild-lit", "repeat", "vars", "wilds", "vars-swapped", "bare-wild"][*i]).collect::<Vec<_>>().join(",")) });
  }
  // (B2) the same two-field arms on a function of ONE parameter that is a tuple: the argument list is one value, matched as a tuple
  for sel in ordered_selections(p2.len(), 2) {
    let arms: Vec<Arm> = sel.iter().map(|i| p2[*i].clone()).collect();
    let def = format!("gt(t<(f64,f64)>) => <f64>\n{}", glyphs(&arms.iter().map(|a| a.text).collect::<Vec<_>>()));
    let mut calls = vec![];
    for (k, (x, y)) in [(0i64, 0i64), (0, 1), (1, 0), (2, 2), (1, 2)].iter().enumerate() {
      let r = reference2(&arms, *x, *y);
      let e = match r { Some(v) => Expect::Val(f64s(v)), None => Expect::MustError };
      calls.push((format!("gt(({}, {}))", x, y), match r { Some(v) => Expect::Val(f64s(v)), None => Expect::MustError }));
      calls.push((format!("tp{k} := ({x}, {y})\nr@ := gt(tp{k})", k = k, x = x, y = y), e));
    }
    out.push(Case { family: "fn-tuple-arg", def, calls, locus: format!("fn-tuple-arg:{}", sel.iter().map(|i| ["lit-wild", "wild-lit", "repeat", "vars", "wilds", "vars-swapped", "bare-wild"][*i]).collect::<Vec<_>>().join(",")) });
  }
  // (B3) bodies and guards that read a pattern-bound name through a subscript, with globals of the same names holding other values; as a
  // match expression and as a function whose pattern re-binds the name of its own parameter
  {
    struct SA { text: &'static str, name: &'static str, f: fn(&[i64]) -> Option<i64> }
    let pool: Vec<SA> = vec![
      SA { text: "[h | t] => t[1]", name: "tail-index", f: |v| if v.len() >= 2 { Some(v[1]) } else { None } },
      SA { text: "[h | t], t[1] > 15 => 1000 + h", name: "guard-tail-index", f: |v| if v.len() >= 2 && v[1] > 15 { Some(1000 + v[0]) } else { None } },
      SA { text: "[a, b | t] => t[1] + a", name: "two-heads-tail-index", f: |v| if v.len() >= 3 { Some(v[2] + v[0]) } else { None } },
      SA { text: "[h | t] => t[2] * 2", name: "tail-second", f: |v| if v.len() >= 3 { Some(v[2] * 2) } else { None } },
      SA { text: "* => 0", name: "wild", f: |_| Some(0) },
    ];
    let subjects: [&[i64]; 4] = [&[10, 20, 30], &[10, 5, 30], &[7, 16, 2, 40], &[3, 18, 9]];
    for sel in ordered_selections(pool.len(), 3) {
      if !sel.contains(&4) || sel.len() < 2 { continue; }
      let body = sel.iter().map(|i| format!("  | {}", pool[*i].text)).collect::<Vec<_>>().join("\n");
      let mut calls = vec![];
      for (k, sub) in subjects.iter().enumerate() {
        let first = sel.iter().find_map(|i| (pool[*i].f)(sub));
        let e = match first { Some(v) => Expect::Val(f64s(v)), None => Expect::MustError };
        calls.push((format!("vs{k} := [{vals}]\nr@ := vs{k}?\n{body}.", k = k, vals = sub.iter().map(|x| x.to_string()).collect::<Vec<_>>().join(" "), body = body), e));
      }
      out.push(Case { family: "match-subscripted-binding", def: "t := [1 2 3 4]\nh := 99\na := 98\nb := 97".into(), calls, locus: format!("match-subscripted-binding:{}", sel.iter().map(|i| pool[*i].name).collect::<Vec<_>>().join(",")) });
      // function form: the tail is bound to the name of the function's own parameter
      let ftexts: Vec<String> = sel.iter().map(|i| pool[*i].text.replace("| t]", "| xs]").replace("t[", "xs[")).collect();
      let fbody = glyphs(&ftexts.iter().map(|t| t.as_str()).collect::<Vec<_>>());
      let mut calls = vec![];
      for sub in subjects.iter() {
        let first = sel.iter().find_map(|i| (pool[*i].f)(sub));
        let e = match first { Some(v) => Expect::Val(f64s(v)), None => Expect::MustError };
        calls.push((format!("sv([{}])", sub.iter().map(|x| x.to_string()).collect::<Vec<_>>().join(" ")), e));
      }
      out.push(Case { family: "fn-subscripted-binding", def: format!("sv(xs<[f64]>) => <f64>\n{}", fbody), calls, locus: format!("fn-subscripted-binding:{}", sel.iter().map(|i| pool[*i].name).collect::<Vec<_>>().join(",")) });
    }
  }
  // (C) match with guards on a scalar subject
  let p3 = vec![
    Arm { text: "| 0 => 10", pat: Pat::Lit(0), guard: Guard::None, body: Body::Const(10) },
    Arm { text: "| 1 => 11", pat: Pat::Lit(1), guard: Guard::None, body: Body::Const(11) },
    Arm { text: "| n => 20 + n", pat: Pat::Var("n"), guard: Guard::None, body: Body::Lin("n", 1, 20) },
    Arm { text: "| n, n > 0 => 30 + n", pat: Pat::Var("n"), guard: Guard::Gt("n", 0), body: Body::Lin("n", 1, 30) },
    Arm { text: "| n, n < 2 => 40 + n", pat: Pat::Var("n"), guard: Guard::Lt("n", 2), body: Body::Lin("n", 1, 40) },
    Arm { text: "| m, m == 1 => 50 + m", pat: Pat::Var("m"), guard: Guard::Eq("m", 1), body: Body::Lin("m", 1, 50) },
    Arm { text: "| * => 99", pat: Pat::Wild, guard: Guard::None, body: Body::Const(99) },
  ];
  for sel in ordered_selections(p3.len(), maxsel.min(3)) {
    let arms: Vec<Arm> = sel.iter().map(|i| p3[*i].clone()).collect();
    let has_wild = sel.contains(&6);
    let has_catch_all = sel.contains(&2);
    let body = arms.iter().map(|a| format!("  {}", a.text)).collect::<Vec<_>>().join("\n");
    let mut calls = vec![];
    for x in [0i64, 1, 2, 3] {
      let r = reference(&arms, &V::N(x), &vec![]);
      let e = if has_wild { match r { Some(v) => Expect::Val(f64s(v)), None => Expect::MustError } }
              else if has_catch_all { match r { Some(v) => Expect::ValOrError(f64s(v)), None => Expect::MustError } }
              else { Expect::MustError };   // neither a wildcard arm nor an enum: must be rejected
      calls.push((format!("x{x} := {x}\nr@ := x{x}?\n{body}.", x = x, body = body), e));
    }
    out.push(Case { family: "match-scalar", def: String::new(), calls, locus: format!("match:{}", sel.iter().map(|i| ["lit", "lit", "var", "var+guard", "var+guard", "var+guard", "wild"][*i]).collect::<Vec<_>>().join(",")) });
  }
  // (D) match on a tuple subject: names reused at different positions across arms, guards, repeated variables
  let p4 = vec![
    Arm { text: "| (a, b), a > b => a", pat: Pat::Tup(vec![Pat::Var("a"), Pat::Var("b")]), guard: Guard::GtV("a", "b"), body: Body::Lin("a", 1, 0) },
    Arm { text: "| (b, a) => a * 10 + b", pat: Pat::Tup(vec![Pat::Var("b"), Pat::Var("a")]), guard: Guard::None, body: Body::Lin2("a", 10, "b") },
    Arm { text: "| (a, 0) => a + 500", pat: Pat::Tup(vec![Pat::Var("a"), Pat::Lit(0)]), guard: Guard::None, body: Body::Lin("a", 1, 500) },
    Arm { text: "| (0, b) => b + 600", pat: Pat::Tup(vec![Pat::Lit(0), Pat::Var("b")]), guard: Guard::None, body: Body::Lin("b", 1, 600) },
    Arm { text: "| (a, a) => a + 700", pat: Pat::Tup(vec![Pat::Var("a"), Pat::Var("a")]), guard: Guard::None, body: Body::Lin("a", 1, 700) },
    Arm { text: "| (a, b), a < 3 => a + b + 800", pat: Pat::Tup(vec![Pat::Var("a"), Pat::Var("b")]), guard: Guard::Lt("a", 3), body: Body::Lin2("a", 1, "b800") },
  ];
  for sel in ordered_selections(p4.len(), tier.pick(2, 3)) {
    let arms: Vec<Arm> = sel.iter().map(|i| p4[*i].clone()).collect();
    let mut armsw = arms.clone();
    armsw.push(Arm { text: "| * => 0", pat: Pat::Wild, guard: Guard::None, body: Body::Const(0) });
    let body = armsw.iter().map(|a| format!("  {}", a.text)).collect::<Vec<_>>().join("\n");
    let mut calls = vec![];
    for (i, (x, y)) in [(3i64, 5i64), (5, 3), (2, 2), (0, 4), (4, 0)].iter().enumerate() {
      let r = reference_t(&armsw, *x, *y);
      calls.push((format!("p{i} := ({x}, {y})\nr@ := p{i}?\n{body}.", i = i, x = x, y = y, body = body), match r { Some(v) => Expect::Val(f64s(v)), None => Expect::MustError }));
    }
    out.push(Case { family: "match-tuple", def: String::new(), calls, locus: format!("match-tuple:{}", sel.iter().map(|i| ["vars+guard", "vars-swapped", "var-lit", "lit-var", "repeat", "vars+guard2"][*i]).collect::<Vec<_>>().join(",")) });
    // the same subjects with their components held in variables (both, the first only, a mutable one): a pattern sees the value, not the reference
    for (vi, vname) in ["both-variables", "first-variable", "mutable-variables"].iter().enumerate() {
      let mut calls = vec![];
      for (i, (x, y)) in [(3i64, 5i64), (5, 3), (2, 2), (0, 4), (4, 0)].iter().enumerate() {
        let r = reference_t(&armsw, *x, *y);
        let m = if vi == 2 { "~" } else { "" };
        let second = if vi == 1 { y.to_string() } else { format!("vy{}", i) };
        calls.push((format!("{m}vx{i} := {x}\n{m}vy{i} := {y}\np{i} := (vx{i}, {second})\nr@ := p{i}?\n{body}.", m = m, i = i, x = x, y = y, second = second, body = body), match r { Some(v) => Expect::Val(f64s(v)), None => Expect::MustError }));
      }
      out.push(Case { family: "match-tuple", def: String::new(), calls, locus: format!("match-tuple:{}:subject-from-{}", sel.iter().map(|i| ["vars+guard", "vars-swapped", "var-lit", "lit-var", "repeat", "vars+guard2"][*i]).collect::<Vec<_>>().join(","), vname) });
    }
  }
  // (E) match on a vector subject
  let p5 = vec![
    Arm { text: "| [a] => a", pat: Pat::VecExact(vec![Pat::Var("a")]), guard: Guard::None, body: Body::Lin("a", 1, 0) },
    Arm { text: "| [a b] => a * 10 + b + 1000", pat: Pat::VecExact(vec![Pat::Var("a"), Pat::Var("b")]), guard: Guard::None, body: Body::Lin2("a", 10, "b1000") },
    Arm { text: "| [h ...] => h + 2000", pat: Pat::VecHead(vec![Pat::Var("h")]), guard: Guard::None, body: Body::Lin("h", 1, 2000) },
    Arm { text: "| [... l] => l + 3000", pat: Pat::VecTail(vec![Pat::Var("l")]), guard: Guard::None, body: Body::Lin("l", 1, 3000) },
    Arm { text: "| [7 ...] => 4000", pat: Pat::VecHead(vec![Pat::Lit(7)]), guard: Guard::None, body: Body::Const(4000) },
    Arm { text: "| [... 9] => 5000", pat: Pat::VecTail(vec![Pat::Lit(9)]), guard: Guard::None, body: Body::Const(5000) },
    Arm { text: "| [p ... q] => p * 10 + q + 6000", pat: Pat::VecEnds(vec![Pat::Var("p")], vec![Pat::Var("q")]), guard: Guard::None, body: Body::Lin2("p", 10, "q6000") },
    Arm { text: "| [p r ... q] => p * 10 + q + 7000", pat: Pat::VecEnds(vec![Pat::Var("p"), Pat::Var("r")], vec![Pat::Var("q")]), guard: Guard::None, body: Body::Lin2("p", 10, "q7000") },
    Arm { text: "| [7 ... 9] => 8000", pat: Pat::VecEnds(vec![Pat::Lit(7)], vec![Pat::Lit(9)]), guard: Guard::None, body: Body::Const(8000) },
  ];
  for sel in ordered_selections(p5.len(), 2) {
    let mut arms: Vec<Arm> = sel.iter().map(|i| p5[*i].clone()).collect();
    arms.push(Arm { text: "| * => 0", pat: Pat::Wild, guard: Guard::None, body: Body::Const(0) });
    let body = arms.iter().map(|a| format!("  {}", a.text)).collect::<Vec<_>>().join("\n");
    let mut calls = vec![];
    for (i, v) in [vec![7i64], vec![7, 8], vec![7, 8, 9], vec![1, 9], vec![5], vec![7, 9], vec![9], vec![7, 1, 2, 9]].iter().enumerate() {
      let r = reference(&arms, &V::Vc(v.clone()), &vec![]);
      let lit = format!("[{}]", v.iter().map(|x| x.to_string()).collect::<Vec<_>>().join(" "));
      calls.push((format!("v{i} := {lit}\nr@ := v{i}?\n{body}.", i = i, lit = lit, body = body), match r { Some(x) => Expect::Val(f64s(x)), None => Expect::MustError }));
    }
    out.push(Case { family: "match-vector", def: String::new(), calls, locus: format!("match-vector:{}", sel.iter().map(|i| ["exact1", "exact2", "head", "tail", "head-lit", "tail-lit", "ends", "ends-2-1", "ends-lit"][*i]).collect::<Vec<_>>().join(",")) });
  }
  // (G) enum subjects: variant arms in every order, a duplicate arm, a wildcard; coverage decides acceptance
  {
    let variants = ["red", "green", "blue"];
    // (pattern variant or None = wildcard, value)
    let pool: Vec<(Option<usize>, i64, &str)> = vec![(Some(0), 1, "red"), (Some(1), 2, "green"), (Some(2), 3, "blue"), (None, 9, "wild"), (Some(0), 7, "red-again")];
    for sel in ordered_selections(pool.len(), maxsel) {
      let arms: Vec<&(Option<usize>, i64, &str)> = sel.iter().map(|i| &pool[*i]).collect();
      let has_wild = arms.iter().any(|a| a.0.is_none());
      let covered = (0..3).all(|v| arms.iter().any(|a| a.0 == Some(v)));
      let text = |glyph_fn: bool| -> String {
        let lines: Vec<String> = arms.iter().map(|a| match a.0 { Some(v) => format!(":{} => {}", variants[v], a.1), None => format!("* => {}", a.1) }).collect();
        if glyph_fn { glyphs(&lines.iter().map(|x| x.as_str()).collect::<Vec<_>>()) } else { lines.iter().map(|l| format!("  | {}", l)).collect::<Vec<_>>().join("\n") }
      };
      let expect = |v: usize| -> Expect {
        if !has_wild && !covered { return Expect::MustError; }
        match arms.iter().find(|a| a.0.is_none() || a.0 == Some(v)) { Some(a) => Expect::Val(f64s(a.1)), None => Expect::MustError }
      };
      let locus_arms = sel.iter().map(|i| pool[*i].2).collect::<Vec<_>>().join(",");
      // match expression
      let mut calls = vec![];
      for v in 0..3 { calls.push((format!("c{v}<col> := :{name}\nr@ := c{v}?\n{body}.", v = v, name = variants[v], body = text(false)), expect(v))); }
      out.push(Case { family: "match-enum", def: "<col> := :red | :green | :blue".into(), calls, locus: format!("match-enum:{}", locus_arms) });
      // match-arm function with an enum input
      let mut calls = vec![];
      for v in 0..3 { calls.push((format!("h{v}(c<col>) => <f64>\n{body}\nd{v}<col> := :{name}\nr@ := h{v}(d{v})", v = v, name = variants[v], body = glyphs(&arms.iter().map(|a| match a.0 { Some(x) => format!(":{} => {}", variants[x], a.1), None => format!("* => {}", a.1) }).collect::<Vec<_>>().iter().map(|x| x.as_str()).collect::<Vec<_>>())), expect(v))); }
      out.push(Case { family: "fn-enum", def: "<col> := :red | :green | :blue".into(), calls, locus: format!("fn-enum:{}", locus_arms) });
    }
    // variants that carry a value: literal payloads, captured payloads, guards
    let pool2: Vec<(&str, &str)> = vec![(":circle(1) => 100", "circle-lit"), (":circle(x) => x + 10", "circle-var"), (":circle(x), x > 2 => x + 200", "circle-guard"), (":square(x) => x + 50", "square-var"), (":square(2) => 300", "square-lit"), ("* => 0", "wild")];
    // reference: (variant, payload) -> first matching arm
    fn arm2(i: usize, variant: usize, x: i64) -> Option<i64> { match i { 0 => if variant == 0 && x == 1 { Some(100) } else { None }, 1 => if variant == 0 { Some(x + 10) } else { None }, 2 => if variant == 0 && x > 2 { Some(x + 200) } else { None }, 3 => if variant == 1 { Some(x + 50) } else { None }, 4 => if variant == 1 && x == 2 { Some(300) } else { None }, _ => Some(0) } }
    for sel in ordered_selections(pool2.len(), maxsel.min(3)) {
      let has_wild = sel.contains(&5);
      let names_covered = sel.iter().any(|i| *i <= 2) && sel.iter().any(|i| *i == 3 || *i == 4);
      let totally_covered = sel.contains(&1) && sel.contains(&3);
      let body = sel.iter().map(|i| format!("  | {}", pool2[*i].0)).collect::<Vec<_>>().join("\n");
      let mut calls = vec![];
      for (k, (variant, x)) in [(0usize, 1i64), (0, 2), (0, 3), (1, 2), (1, 4)].iter().enumerate() {
        let first = sel.iter().find_map(|i| arm2(*i, *variant, *x));
        let e = if !has_wild && !names_covered { Expect::MustError }
                else { match first { Some(v) if has_wild || totally_covered => Expect::Val(f64s(v)), Some(v) => Expect::ValOrError(f64s(v)), None => Expect::MustError } };
        calls.push((format!("q{k}<shape> := :{name}({x})\nr@ := q{k}?\n{body}.", k = k, name = ["circle", "square"][*variant], x = x, body = body), e));
      }
      out.push(Case { family: "match-enum-payload", def: "<shape> := :circle<f64> | :square<f64>".into(), calls, locus: format!("match-enum-payload:{}", sel.iter().map(|i| pool2[*i].1).collect::<Vec<_>>().join(",")) });
      // the payload given by a variable (immutable / mutable) instead of a literal
      for (vi, vname) in ["variable", "mutable-variable"].iter().enumerate() {
        let mut calls = vec![];
        for (k, (variant, x)) in [(0usize, 1i64), (0, 2), (0, 3), (1, 2), (1, 4)].iter().enumerate() {
          let first = sel.iter().find_map(|i| arm2(*i, *variant, *x));
          let e = if !has_wild && !names_covered { Expect::MustError }
                  else { match first { Some(v) if has_wild || totally_covered => Expect::Val(f64s(v)), Some(v) => Expect::ValOrError(f64s(v)), None => Expect::MustError } };
          calls.push((format!("{m}z{k} := {x}\nq{k}<shape> := :{name}(z{k})\nr@ := q{k}?\n{body}.", m = if vi == 1 { "~" } else { "" }, k = k, name = ["circle", "square"][*variant], x = x, body = body), e));
        }
        out.push(Case { family: "match-enum-payload", def: "<shape> := :circle<f64> | :square<f64>".into(), calls, locus: format!("match-enum-payload:{}:payload-from-{}", sel.iter().map(|i| pool2[*i].1).collect::<Vec<_>>().join(","), vname) });
      }
    }
    // two enums of one session that share their variant names: a value of either must still match its arms
    for (fam, d1, d2, subj, body, exp) in [
      ("plain", "<ea> := :on | :off", "<eb> := :on | :off", ":off", "  | :on => 1\n  | :off => 2", 2i64),
      ("payload", "<pa> := :circle<f64> | :square<f64>", "<pb> := :circle<f64> | :square<f64>", ":circle(2)", "  | :circle(x) => x + 10\n  | * => 0", 12),
    ] {
      let (n1, n2) = (d1.split('>').next().unwrap_or("").trim_start_matches('<'), d2.split('>').next().unwrap_or("").trim_start_matches('<'));
      let calls = vec![
        (format!("u1<{}> := {}\nr@ := u1?\n{}.", n1, subj, body), Expect::Val(f64s(exp))),
        (format!("{}\nu2<{}> := {}\nr@ := u2?\n{}.", d2, n2, subj, body), Expect::Val(f64s(exp))),
        (format!("r@ := u1?\n{}.", body), Expect::Val(f64s(exp))),
      ];
      out.push(Case { family: "match-enum-shared-names", def: d1.to_string(), calls, locus: format!("match-enum-shared-names:{}", fam) });
    }
  }
  // (H) literal arms of other kinds: strings, booleans, typed integers
  {
    struct Fam { name: &'static str, define: &'static str, subjects: Vec<&'static str>, arms: Vec<(&'static str, Option<usize>, i64)> }
    let fams = vec![
      Fam { name: "string", define: "{n} := {v}", subjects: vec!["\"a\"", "\"b\"", "\"c\""], arms: vec![("\"a\" => 1", Some(0), 1), ("\"b\" => 2", Some(1), 2), ("* => 9", None, 9), ("\"a\" => 7", Some(0), 7)] },
      Fam { name: "bool", define: "{n} := {v}", subjects: vec!["true", "false"], arms: vec![("true => 1", Some(0), 1), ("false => 2", Some(1), 2), ("* => 9", None, 9), ("true => 7", Some(0), 7)] },
      Fam { name: "u8", define: "{n}<u8> := {v}", subjects: vec!["1", "2", "3"], arms: vec![("1u8 => 1", Some(0), 1), ("2u8 => 2", Some(1), 2), ("* => 9", None, 9), ("1u8 => 7", Some(0), 7)] },
      Fam { name: "i64", define: "{n}<i64> := {v}", subjects: vec!["1", "2", "3"], arms: vec![("0x1 => 1", Some(0), 1), ("0x2 => 2", Some(1), 2), ("* => 9", None, 9), ("0x1 => 7", Some(0), 7)] },
    ];
    for f in &fams {
      for sel in ordered_selections(f.arms.len(), maxsel.min(3)) {
        let has_wild = sel.iter().any(|i| f.arms[*i].1.is_none());
        let body = sel.iter().map(|i| format!("  | {}", f.arms[*i].0)).collect::<Vec<_>>().join("\n");
        let mut calls = vec![];
        for (si, subj) in f.subjects.iter().enumerate() {
          let first = sel.iter().find(|i| f.arms[**i].1.is_none() || f.arms[**i].1 == Some(si)).map(|i| f.arms[*i].2);
          // without a wildcard the match may be rejected outright; if it is accepted it must give the first matching arm, and with no matching arm it must fail
          let e = match (first, has_wild) { (Some(v), true) => Expect::Val(f64s(v)), (Some(v), false) => Expect::ValOrError(f64s(v)), (None, _) => Expect::MustError };
          calls.push((format!("{}\nr@ := w{}?\n{}.", f.define.replace("{n}", &format!("w{}", si)).replace("{v}", subj), si, body), e));
        }
        out.push(Case { family: "match-literal-kinds", def: String::new(), calls, locus: format!("match-{}:{}", f.name, sel.iter().map(|i| if f.arms[*i].1.is_none() { "wild".to_string() } else { format!("lit{}", f.arms[*i].2) }).collect::<Vec<_>>().join(",")) });
        // the same arms as a match-arm function of one argument of that kind
        let kind = match f.name { "string" => "string", "bool" => "bool", "u8" => "u8", _ => "i64" };
        let def = format!("lf(q<{}>) => <f64>\n{}", kind, glyphs(&sel.iter().map(|i| f.arms[*i].0).collect::<Vec<_>>()));
        let mut calls = vec![];
        for (si, subj) in f.subjects.iter().enumerate() {
          let first = sel.iter().find(|i| f.arms[**i].1.is_none() || f.arms[**i].1 == Some(si)).map(|i| f.arms[*i].2);
          let e = match (first, has_wild) { (Some(v), true) => Expect::Val(f64s(v)), (Some(v), false) => Expect::ValOrError(f64s(v)), (None, _) => Expect::MustError };
          calls.push((format!("{}\nr@ := lf(z{})", f.define.replace("{n}", &format!("z{}", si)).replace("{v}", subj), si), e));
        }
        out.push(Case { family: "fn-literal-kinds", def, calls, locus: format!("fn-{}:{}", f.name, sel.iter().map(|i| if f.arms[*i].1.is_none() { "wild".to_string() } else { format!("lit{}", f.arms[*i].2) }).collect::<Vec<_>>().join(",")) });
      }
    }
  }
  // (F) recursion: the recurrence over its whole non-overflowing domain
  let fact: Vec<(String, Expect)> = (0..=20u64).map(|n| (format!("fact({}u64)", n), Expect::Val((1..=n).map(|x| x as u128).product::<u128>().to_string()))).collect();
  out.push(Case { family: "recursion", def: "fact(n<u64>) => <u64>\n  ├ 0u64 => 1u64\n  └ n => n * fact(n - 1u64).".into(), calls: fact, locus: "recursion:factorial".into() });
  let mut fibs = vec![0u64, 1]; for i in 2..=24 { let v = fibs[i - 1] + fibs[i - 2]; fibs.push(v); }
  out.push(Case { family: "recursion", def: "fib(n<u64>) => <u64>\n  ├ 0u64 => 0u64\n  ├ 1u64 => 1u64\n  └ n => fib(n - 1u64) + fib(n - 2u64).".into(), calls: (0..=tier.pick(15usize, 22usize)).map(|n| (format!("fib({}u64)", n), Expect::Val(fibs[n].to_string()))).collect(), locus: "recursion:fibonacci".into() });
  out.push(Case { family: "recursion", def: "pw(b<u64>, e<u64>) => <u64>\n  ├ (*, 0u64) => 1u64\n  └ (b, e) => b * pw(b, e - 1u64).".into(), calls: (1..=5u64).flat_map(|b| (0..=10u32).map(move |e| (format!("pw({}u64, {}u64)", b, e), Expect::Val(b.pow(e).to_string())))).collect(), locus: "recursion:power".into() });
  fn gcd(a: u64, b: u64) -> u64 { if b == 0 { a } else { gcd(b, a % b) } }
  out.push(Case { family: "recursion", def: "gcd(a<u64>, b<u64>) => <u64>\n  ├ (a, 0u64) => a\n  └ (a, b) => gcd(b, a % b).".into(), calls: [(12u64, 18u64), (18, 12), (17, 5), (100, 75), (7, 7), (0, 9), (9, 0), (1071, 462)].iter().map(|(a, b)| (format!("gcd({}u64, {}u64)", a, b), Expect::Val(gcd(*a, *b).to_string()))).collect(), locus: "recursion:gcd(tail)".into() });
  // tail recursion with accumulators: every combination of naming or wildcarding a position whose parameter is still read by name
  for (bi, base) in ["(0u64, *) => acc", "(0u64, acc) => acc"].iter().enumerate() {
    for (si, step) in ["(n, *) => st(n - 1u64, acc + n)", "(n, acc) => st(n - 1u64, acc + n)", "(n, a) => st(n - 1u64, a + n)"].iter().enumerate() {
      let def = format!("st(n<u64>, acc<u64>) => <u64>\n  ├ {}\n  └ {}.", base, step);
      let mut calls: Vec<(String, Expect)> = (0..=6u64).map(|n| (format!("st({}u64, 3u64)", n), Expect::Val((n * (n + 1) / 2 + 3).to_string()))).collect();
      let deep = tier.pick(2000u64, 100000u64);
      calls.push((format!("st({}u64, 0u64)", deep), Expect::Val((deep * (deep + 1) / 2).to_string())));
      out.push(Case { family: "recursion", def, calls, locus: format!("recursion:tail-accumulator:{}{}", ["wild-base", "named-base"][bi], ["+wild-step", "+named-step", "+renamed-step"][si]) });
    }
  }
  // ---- a literal arm of another numeric kind than the subject (f64 subject / u64 literal and the reverse): such an arm may apply only when
  // the two numbers are equal - it must never win for a subject it does not equal (0.5 is not 0u64)
  {
    let fsub = ["0.0", "0.5", "1.0", "1.5", "2.9", "-0.5", "3.0"];
    let ulit = [0u64, 1, 2, 3];
    for (li, l) in ulit.iter().enumerate() {
      let mut calls = vec![];
      for (si, sv) in fsub.iter().enumerate() {
        let equal = sv.parse::<f64>().unwrap() == *l as f64;
        // equal numbers: either arm is acceptable (cross-kind equality is not fixed by the statement); unequal: the wildcard arm must run
        let e = if equal { Expect::Unjudged } else { Expect::Val("2".into()) };
        calls.push((format!("xs{si} := {sv}\nr@ := xs{si}?\n  | {l}u64 => 1\n  | * => 2.", si = si, sv = sv, l = l), e));
      }
      out.push(Case { family: "match-cross-kind-literal", def: String::new(), calls, locus: format!("match-cross-kind-literal:f64-subject:u64-literal-{}", li) });
    }
    for (li, l) in ["0.5", "1.0", "2.7", "3.0"].iter().enumerate() {
      let mut calls = vec![];
      for sv in 0u64..4 {
        let equal = l.parse::<f64>().unwrap() == sv as f64;
        let e = if equal { Expect::Unjudged } else { Expect::Val("2".into()) };
        calls.push((format!("xu{sv} := {sv}u64\nr@ := xu{sv}?\n  | {l} => 1\n  | * => 2.", sv = sv, l = l), e));
      }
      out.push(Case { family: "match-cross-kind-literal", def: String::new(), calls, locus: format!("match-cross-kind-literal:u64-subject:f64-literal-{}", li) });
    }
  }
  // ---- arms whose body cannot be evaluated (division by zero, index out of range, overflow) placed after - or before - the arm that wins:
  // only the body of the first matching arm is evaluated, so a failing body in a later arm must not matter, and a failing first arm is an error
  {
    // (text, matches x?, fails when evaluated?, value)
    struct FA { text: &'static str, name: &'static str, applies: fn(i64) -> bool, fails: bool, val: fn(i64) -> i64 }
    let pool: Vec<FA> = vec![
      FA { text: "1u8 => 10u8", name: "lit", applies: |x| x == 1, fails: false, val: |_| 10 },
      FA { text: "n => n / 0u8", name: "div-zero", applies: |_| true, fails: true, val: |_| 0 },
      FA { text: "n => yy[n + 7u8]", name: "index-out-of-range", applies: |_| true, fails: true, val: |_| 0 },
      FA { text: "n, n > 1u8 => 250u8 + n * 10u8", name: "guarded-overflow", applies: |x| x > 1, fails: true, val: |_| 0 },
      FA { text: "n, n < 1u8 => n + 40u8", name: "guarded-var", applies: |x| x < 1, fails: false, val: |x| x + 40 },
      FA { text: "* => 99u8", name: "wild", applies: |_| true, fails: false, val: |_| 99 },
    ];
    for sel in ordered_selections(pool.len(), 3) {
      if sel.len() < 2 || !sel.iter().any(|i| pool[*i].fails) { continue; }
      let has_wild = sel.contains(&5);
      let body = sel.iter().map(|i| format!("  | {}", pool[*i].text)).collect::<Vec<_>>().join("\n");
      let mut calls = vec![];
      for x in [0i64, 1, 2] {
        let first = sel.iter().find(|i| (pool[**i].applies)(x));
        let e = match first { None => Expect::MustError, Some(i) => if pool[*i].fails { Expect::MustError } else if has_wild { Expect::Val(((pool[*i].val)(x)).to_string()) } else { Expect::ValOrError(((pool[*i].val)(x)).to_string()) } };
        calls.push((format!("x{x}<u8> := {x}\nr@ := x{x}?\n{body}.", x = x, body = body), e));
      }
      out.push(Case { family: "match-failing-arm", def: "yy := [1u8 2u8]".into(), calls, locus: format!("match-failing-arm:{}", sel.iter().map(|i| pool[*i].name).collect::<Vec<_>>().join(",")) });
      // the same arms as a match-arm function (function bodies do not see globals: the index arm reads a literal matrix)
      let fbody = glyphs(&sel.iter().map(|i| pool[*i].text.replace("yy[", "[1u8 2u8][")).collect::<Vec<_>>().iter().map(|t| t.as_str()).collect::<Vec<_>>());
      if !fbody.contains("[1u8 2u8][") {
        let mut calls = vec![];
        for x in [0i64, 1, 2] {
          let first = sel.iter().find(|i| (pool[**i].applies)(x));
          let e = match first { None => Expect::MustError, Some(i) => if pool[*i].fails { Expect::MustError } else { Expect::Val(((pool[*i].val)(x)).to_string()) } };
          calls.push((format!("ff({}u8)", x), e));
        }
        out.push(Case { family: "fn-failing-arm", def: format!("ff(q<u8>) => <u8>\n{}", fbody), calls, locus: format!("fn-failing-arm:{}", sel.iter().map(|i| pool[*i].name).collect::<Vec<_>>().join(",")) });
      }
    }
  }
  let deep = tier.pick(100000u64, 1000000u64);
  out.push(Case { family: "recursion", def: "cd(n<u64>) => <u64>\n  ├ 0u64 => 0u64\n  └ n => cd(n - 1u64).".into(), calls: vec![(format!("cd({}u64)", deep), Expect::Val("0".into())), ("cd(5u64)".into(), Expect::Val("0".into()))], locus: "recursion:countdown(tail)".into() });
  out
}

fn reference2(arms: &[Arm], x: i64, y: i64) -> Option<i64> { reference(arms, &V::T(vec![V::N(x), V::N(y)]), &vec![]) }
/// bodies encode an added constant in the variable name ("b5000" = b + 5000)
fn split_name(q: &'static str) -> (&'static str, i64) { let p = q.find(|c: char| c.is_ascii_digit()).unwrap_or(q.len()); (&q[..p], q[p..].parse().unwrap_or(0)) }
fn reference_t(arms: &[Arm], x: i64, y: i64) -> Option<i64> { reference(arms, &V::T(vec![V::N(x), V::N(y)]), &vec![]) }

pub struct C16 { tier: Tier, cases: Vec<Case> }
impl C16 { pub fn new(tier: Tier) -> C16 { C16 { tier, cases: cases(tier) } } }

impl UnitRunner for C16 {
  fn unit(&mut self, _payload: &str, unit: u64, out: &mut WorkerOut) {
    let c = &self.cases[unit as usize];
    let mut s = Session::new();
    if !c.def.is_empty() {
      out.evaluations += 1;
      let o = s.run(&c.def);
      if !o.is_value() { out.count("definition_rejected"); out.set("rejected_definitions", &format!("{} :: {}", c.locus, o.short())); return; }
    }
    for (i, (call, exp)) in c.calls.iter().enumerate() {
      out.evaluations += 1;
      let stmt = if call.contains("r@") { call.replace("r@", &format!("r{}", i)) } else { format!("r{} := {}", i, call) };
      let o = s.run(&stmt);
      let case = format!("{}{}{}", c.def.replace('\n', " "), if c.def.is_empty() { "" } else { " ;; " }, stmt.replace('\n', " ").replace(&format!("r{} :=", i), "r :="));
      let got = s.get(&format!("r{}", i));
      let gtext = |c: &Canon| match c { Canon::Num(_, t) => t.clone(), o => o.short() };
      match (exp, &o) {
        (_, Outcome::Panic(m)) => out.fail(format!("C16|abort|{}", c.locus), case, m.clone()),
        (Expect::Unjudged, _) => {}
        (Expect::Val(w), Outcome::Value(_)) => {
          out.nontrivial += 1;
          let g = got.as_ref().map(gtext).unwrap_or_default();
          let same = &g == w || g.parse::<f64>().ok().zip(w.parse::<f64>().ok()).map(|(a, b)| a == b).unwrap_or(false);
          if !same { out.fail(format!("C16|{}|{}", if c.family == "recursion" { "recursion-wrong" } else { "wrong-arm" }, c.locus), case, format!("first matching arm gives {}, got {}", w, g)); }
        }
        (Expect::Val(w), _) => { out.nontrivial += 1; out.fail(format!("C16|matching-call-rejected|{}", c.locus), case, format!("expected {}, got {}", w, o.short())); }
        (Expect::ValOrError(w), Outcome::Value(_)) => { out.nontrivial += 1; let g = got.as_ref().map(gtext).unwrap_or_default(); if g.parse::<f64>().ok() != w.parse::<f64>().ok() { out.fail(format!("C16|wrong-arm|{}", c.locus), case, format!("first matching arm gives {}, got {}", w, g)); } }
        (Expect::ValOrError(_), _) => { out.count("match_without_wildcard_rejected"); }
        (Expect::Matrix(r, cc, w), Outcome::Value(_)) => {
          out.nontrivial += 1;
          match got { Some(Canon::Matrix(_, gr, gc, e, _)) => { let ge: Vec<String> = e.iter().map(gtext).collect(); if gr != *r || gc != *cc || &ge != w { out.fail(format!("C16|broadcast-wrong|{}", c.locus), case, format!("elementwise application gives {}x{} {:?}, got {}x{} {:?}", r, cc, w, gr, gc, ge)); } } other => out.fail(format!("C16|broadcast-wrong|{}", c.locus), case, format!("expected a matrix, got {:?}", other.map(|x| x.short()))) }
        }
        (Expect::Matrix(..), _) => { out.nontrivial += 1; out.fail(format!("C16|broadcast-rejected|{}", c.locus), case, o.short()); }
        (Expect::MustError, Outcome::Value(_)) => { out.nontrivial += 1; let cls = if call.contains("?") { "nonexhaustive-or-no-match-accepted" } else if call.matches(',').count() != c.def.lines().next().unwrap_or("").matches(',').count() { "bad-arity-accepted" } else { "no-match-accepted" }; out.fail(format!("C16|{}|{}", cls, c.locus), case, format!("must be rejected, got {:?}", got.map(|x| x.short()))); }
        (Expect::MustError, _) => { out.nontrivial += 1; }
      }
    }
    // the value of a call does not depend on which calls came before it: the same calls in reverse order, in a fresh session
    if c.calls.len() >= 2 && c.family != "recursion" && !c.calls.iter().any(|(call, _)| call.contains(":=") || call.contains("r@")) {
      let mut s2 = Session::new();
      if c.def.is_empty() || s2.run(&c.def).is_value() {
        for (i, (call, _)) in c.calls.iter().enumerate().rev() {
          out.evaluations += 1;
          let stmt = if call.contains("r@") { call.replace("r@", &format!("r{}", i)) } else { format!("r{} := {}", i, call) };
          let o2 = s2.run(&stmt);
          let (g1, g2) = (s.get(&format!("r{}", i)), s2.get(&format!("r{}", i)));
          if g1 != g2 && !matches!(o2, Outcome::Panic(_)) {
            out.fail(format!("C16|call-order-dependent|{}", c.locus), format!("{} ;; {} (after the later calls of the list, in reverse order)", c.def.replace('\n', " "), stmt.replace('\n', " ")), format!("in ascending order {:?}, in descending order {:?}", g1.map(|x| x.short()), g2.map(|x| x.short())));
          } else { out.count("call_order_independent"); }
        }
      }
    }
    if unit % 41 == 0 { out.sample(json!({"definition": c.def, "first_call": c.calls.get(0).map(|x| x.0.clone()), "locus": c.locus})); }
  }
}

impl Check for C16 {
  fn id(&self) -> &'static str { "C16" }
  fn level(&self) -> &'static str { "exploration" }
  fn unit_budget(&self, _t: Tier) -> Duration { Duration::from_secs(120) }
  fn drive(&mut self, tier: Tier, cfg: &PoolCfg, rep: &mut Report) {
    let n = self.cases.len() as u64;
    rep.rule = format!("{} generated definitions: every ordered selection of 1..{} arms from pools of literal / variable / wildcard arms (one argument), tuple patterns incl. a repeated variable and swapped names (two arguments), guarded match arms on scalars, tuple-subject matches that reuse names at different positions with guards, vector patterns (exact, head, tail, ends, literal ends), literal arms over string / bool / u8 / i64 subjects, enum subjects (variant arms in every order with a duplicate arm and a wildcard, as a match expression and as a match-arm function; variants carrying a value with literal, captured and guarded payload patterns), each evaluated over its whole small argument domain incl. wrong arities and matrix broadcast; \
      recursion families (factorial 0..20, fibonacci, power, gcd, accumulator tail recursion with every named/wildcard pattern combination to depth {}, countdown to depth {}); the reference is a first-match evaluator with binding, repeated-variable equality and guards written in the harness; evaluations = statements; non-trivial = calls with a fixed verdict", n, tier.pick(3, 4), tier.pick(2000, 100000), tier.pick(100000, 1000000));
    rep.assumptions = vec!["a scalar match without a `*` arm but with an unguarded variable arm may be rejected or must give the first-match value; without either it must be rejected".into(), "option/_ coalescing arms and arm-kind diagnostics are not judged".into(), "an enum match without `*` must be rejected unless every variant is named by some arm, whatever the subject; when every variant is named but only through literal or guarded payload patterns, acceptance with the first-match value and rejection are both allowed".into()];
    rep.cov("bounds", json!({"definitions": n}));
    let cs = self.cases.clone();
    rep.describe = Some(Box::new(move |_p, u| { let c = &cs[u as usize]; (c.locus.clone(), format!("{} {:?}", c.def.replace('\n', " "), c.calls.get(0).map(|x| x.0.replace('\n', " ")))) }));
    drive_ranges(cfg, rep, range_jobs("", n, 2));
    if rep.out.nontrivial < 500 { rep.vacuity.push("too few judged calls".into()); }
  }
}
