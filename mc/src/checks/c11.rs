//! C11 — matrix construction by concatenation places every block where it is written.
//! unit = one grid of block shapes (valid and invalid tilings alike); inside: kinds x block spellings.
use super::c01::{define_matrix, elem_canon};
use super::*;
use crate::canon::Canon;
use crate::pool::*;
use crate::report::Report;
use crate::subject::*;
use serde_json::json;

pub type Grid = Vec<Vec<(usize, usize)>>;

fn rows_of(maxblocks: usize, dims: &[usize]) -> Vec<Vec<(usize, usize)>> {
  let shapes: Vec<(usize, usize)> = dims.iter().flat_map(|h| dims.iter().map(move |w| (*h, *w))).collect();
  let mut out: Vec<Vec<(usize, usize)>> = vec![];
  let mut cur: Vec<Vec<(usize, usize)>> = vec![vec![]];
  for _ in 0..maxblocks {
    let mut next = vec![];
    for r in &cur { for s in &shapes { let mut t = r.clone(); t.push(*s); next.push(t); } }
    out.extend(next.iter().cloned());
    cur = next;
  }
  out
}

pub fn grids(tier: Tier) -> Vec<Grid> {
  let mut v: Vec<Grid> = vec![];
  // every grid with up to 2 rows of up to 3 blocks, block dimensions in {1,2}
  let rows = rows_of(3, &[1, 2]);
  for r in &rows { v.push(vec![r.clone()]); }
  for r1 in &rows { for r2 in &rows { if r1.len() + r2.len() <= tier.pick(4, 6) { v.push(vec![r1.clone(), r2.clone()]); } } }
  // long single rows / single columns (4..6 blocks): the n-ary concatenation paths
  for n in 4..=6usize {
    for m in 0..(1usize << n) {
      for u in [1usize, 2] {
        v.push(vec![(0..n).map(|i| (u, 1 + (m >> i & 1))).collect()]);             // one row, uniform height u, widths 1/2
        v.push((0..n).map(|i| vec![(1 + (m >> i & 1), u)]).collect());               // one column, uniform width u, heights 1/2
      }
    }
  }
  // three rows of up to two blocks (at most 4 blocks in all) and four rows of one block, block dimensions in {1,2}:
  // the three- and four-argument vertical concatenations with rows that are more than one row high
  let rows2 = rows_of(2, &[1, 2]);
  for r1 in &rows2 { for r2 in &rows2 { for r3 in &rows2 { if r1.len() + r2.len() + r3.len() <= 4 { v.push(vec![r1.clone(), r2.clone(), r3.clone()]); } } } }
  let one = rows_of(1, &[1, 2]);
  for r1 in &one { for r2 in &one { for r3 in &one { for r4 in &one { v.push(vec![r1.clone(), r2.clone(), r3.clone(), r4.clone()]); } } } }
  // taller and wider blocks (heights that are not powers of two included): two block-rows of one or two blocks, three block-rows, and
  // single rows of two to four tall blocks
  for h1 in 1..=7usize { for h2 in 1..=7usize { for w in 1..=3usize { if h1 > 2 || h2 > 2 || w > 2 { v.push(vec![vec![(h1, w)], vec![(h2, w)]]); } } } }
  for h1 in [1usize, 2, 3, 5] { for h2 in [1usize, 2, 3, 5] { for w1 in 1..=3usize { for w2 in 1..=3usize { if h1 > 2 || h2 > 2 || w1 > 2 || w2 > 2 { v.push(vec![vec![(h1, w1), (h1, w2)], vec![(h2, w1), (h2, w2)]]); } } } } }
  for h1 in [1usize, 3, 5] { for h2 in [1usize, 3, 5] { for h3 in [1usize, 3, 5] { if h1 + h2 + h3 > 3 { v.push(vec![vec![(h1, 2)], vec![(h2, 2)], vec![(h3, 2)]]); } } } }
  for h in [3usize, 5, 6, 7] { for n in 2..=4usize { for m in 0..(1usize << n) { v.push(vec![(0..n).map(|i| (h, 1 + (m >> i & 1))).collect()]); } } }
  if tier == Tier::Thorough {
    // three rows, dimensions up to 3, at most 6 blocks
    let rows3 = rows_of(2, &[1, 2, 3]);
    for r1 in &rows3 { for r2 in &rows3 { for r3 in &rows3 { if r1.len() + r2.len() + r3.len() <= 5 { v.push(vec![r1.clone(), r2.clone(), r3.clone()]); } } } }
    for r in rows_of(4, &[1, 3]) { if r.len() == 4 { v.push(vec![r]); } }
  }
  v
}

pub const KINDS_Q: [&str; 3] = ["f64", "u8", "string"];
pub const KINDS_T: [&str; 7] = ["f64", "u8", "string", "i64", "bool", "r64", "c64"];

fn value(kind: &str, block: usize, pos: usize) -> String {
  let n = 10 * (block + 1) + pos + 1;
  match kind { "string" => format!("\"s{}\"", n), "bool" => format!("{}", (block + pos) % 2 == 0), "r64" => format!("{}/7", n), "c64" => format!("{}+1i", n), "f64" => format!("{}.5", n), _ => format!("{}", n) }
}

/// how a block is spelled in the literal
#[derive(Clone, Copy, PartialEq, Debug)]
pub enum Form { Variable, NestedLiteral, Formula }

pub struct C11 { tier: Tier, gs: Vec<Grid> }
impl C11 { pub fn new(tier: Tier) -> C11 { C11 { tier, gs: grids(tier) } } }

pub fn validity(g: &Grid) -> Option<(usize, usize)> {
  let mut width = None; let mut height = 0;
  for row in g {
    let h = row[0].0;
    if !row.iter().all(|b| b.0 == h) { return None; }
    let w: usize = row.iter().map(|b| b.1).sum();
    match width { None => width = Some(w), Some(x) if x != w => return None, _ => {} }
    height += h;
  }
  Some((height, width.unwrap_or(0)))
}

impl UnitRunner for C11 {
  fn unit(&mut self, _payload: &str, unit: u64, out: &mut WorkerOut) {
    if _payload == "contexts" { return context_unit(unit, out); }
    let g = &self.gs[unit as usize];
    let nblocks: usize = g.iter().map(|r| r.len()).sum();
    // one dispatch arm per kind: the smallest grids (up to two blocks; three in the thorough tier) run for every kind
    let every_kind = ["f64", "u8", "string", "i64", "bool", "r64", "c64", "i8", "i16", "i32", "i128", "u16", "u32", "u64", "u128", "f32"];
    let kinds: Vec<&str> = if nblocks <= self.tier.pick(2, 3) { every_kind.to_vec() } else if self.tier == Tier::Thorough && nblocks <= 4 { KINDS_T.to_vec() } else if self.tier == Tier::Thorough { vec!["f64", "u8", "string", "i64"] } else { KINDS_Q.to_vec() };
    let shape_txt = g.iter().map(|r| r.iter().map(|b| format!("{}x{}", b.0, b.1)).collect::<Vec<_>>().join(" ")).collect::<Vec<_>>().join(" ; ");
    let valid = validity(g);
    for kind in kinds {
      // variants: (scalar spelling of 1x1 blocks, which block (if any) is written anonymously and how)
      let has_1x1 = g.iter().flatten().any(|b| *b == (1, 1));
      let mut variants: Vec<(bool, Option<(usize, Form)>)> = vec![(false, None)];
      if has_1x1 { variants.push((true, None)); }
      if kind == "f64" || kind == "u8" { for b in 0..nblocks.min(3) { variants.push((false, Some((b, Form::NestedLiteral)))); if kind == "f64" { variants.push((false, Some((b, Form::Formula)))); } } variants.push((false, Some((nblocks - 1, Form::NestedLiteral)))); }
      for (scalar_1x1, anon) in variants {
        let mut s = Session::new();
        let mut defs = vec![]; let mut cells: Vec<Vec<String>> = vec![]; let mut bi = 0; let mut ok = true;
        let mut expect: Vec<Vec<Canon>> = valid.map(|(h, _)| vec![vec![]; h]).unwrap_or_default();
        let mut row_off = 0;
        for row in g {
          let mut rc = vec![];
          for (h, w) in row {
            let vals: Vec<String> = (0..h * w).map(|p| value(kind, bi, p)).collect();
            let name = format!("b{}", bi);
            let spelled = match anon {
              Some((ab, Form::NestedLiteral)) if ab == bi => { let lv: Vec<String> = if kind == "u8" { vals.iter().map(|v| format!("{}u8", v)).collect() } else { vals.clone() }; super::c01::matrix_literal(&lv, *h, *w) }
              Some((ab, Form::Formula)) if ab == bi => { let d = define_matrix(&name, kind, &vals, *h, *w); defs.push(d.clone()); if !s.run(&d).is_value() { ok = false; } format!("{} * 1", name) }
              _ => {
                let d = if (*h, *w) == (1, 1) && scalar_1x1 { super::c01::define_scalar(&name, kind, &vals[0]) } else { define_matrix(&name, kind, &vals, *h, *w) };
                defs.push(d.clone());
                if !s.run(&d).is_value() { ok = false; }
                name.clone()
              }
            };
            if valid.is_some() { for i in 0..*h { for j in 0..*w { expect[row_off + i].push(elem_canon(kind, &vals[i * w + j])); } } }
            rc.push(spelled);
            bi += 1;
          }
          row_off += row[0].0;
          cells.push(rc);
        }
        if !ok { out.count("block_define_rejected"); continue; }
        let lit = format!("[{}]", cells.iter().map(|r| r.join(" ")).collect::<Vec<_>>().join("; "));
        out.evaluations += 1;
        let before = s.plan_step_names().len();
        let o = s.run(&format!("r := {}", lit));
        let names = s.plan_step_names();
        let step = if o.is_value() && names.len() > before { names[before..].iter().filter(|n| n.contains("Concat")).last().cloned().unwrap_or_else(|| "no-concat-step".into()).split('<').next().unwrap_or("").to_string() } else { format!("rows{}:blocks{}", g.len(), nblocks) };
        let vname = format!("{}{}", if scalar_1x1 { "scalar-1x1," } else { "" }, match anon { Some((_, Form::NestedLiteral)) => "nested-literal-block", Some((_, Form::Formula)) => "formula-block", _ => "variables" });
        let case = format!("{}; r := {}   (block shapes: {})", defs.join("; "), lit, shape_txt);
        if o.is_value() { out.set("concat_steps", &step); }
        match (&valid, &o) {
          (_, Outcome::Panic(m)) => out.fail(format!("C11|panic|{}", step), case, m.clone()),
          (Some((h, w)), Outcome::Value(c)) => {
            out.nontrivial += 1;
            let want: Vec<Canon> = expect.iter().flatten().cloned().collect();
            match c {
              Canon::Matrix(k, r, cc, e, _) => {
                if (*r, *cc) != (*h, *w) { out.fail(format!("C11|wrong-shape|{}:{}", step, vname), case, format!("expected {}x{}, got {}", h, w, c.short())); }
                else if e != &want { out.fail(format!("C11|misplaced|{}:{}", step, vname), case, format!("expected {:?}, got {}", want.iter().map(|x| x.bare()).collect::<Vec<_>>(), c.short())); }
                else if k != kind { out.fail(format!("C11|kind-changed|{}:{}", step, vname), case, format!("blocks are {}, result is {}", kind, k)); }
              }
              other => { if !(*h == 1 && *w == 1 && want.get(0) == Some(other)) { out.fail(format!("C11|wrong-shape|{}:{}", step, vname), case, format!("expected a {}x{} matrix, got {}", h, w, other.short())); } }
            }
          }
          (Some(_), _) => { out.nontrivial += 1; out.fail(format!("C11|valid-rejected|{}:{}", step, vname), format!("{} [{}]", case, kind), format!("heights agree within each row and row widths agree, got {}", o.short())); }
          (None, Outcome::Value(c)) => { out.nontrivial += 1; out.fail(format!("C11|invalid-accepted|{}:{}", step, vname), case, format!("block shapes do not tile, got {}", c.short())); }
          (None, _) => { out.nontrivial += 1; }
        }
        if unit % 211 == 0 && kind == "f64" && anon.is_none() && !scalar_1x1 { out.sample(json!({"blocks": defs, "literal": lit, "value": o.short()})); }
      }
      // one block of another kind: must be rejected
      if valid.is_some() && nblocks >= 2 && nblocks <= 4 && kind != "string" {
        let mut s = Session::new();
        let mut cells: Vec<Vec<String>> = vec![]; let mut bi = 0; let mut defs = vec![];
        for row in g { let mut rc = vec![]; for (h, w) in row { let k2 = if bi == nblocks - 1 { "string" } else { kind }; let vals: Vec<String> = (0..h * w).map(|p| value(k2, bi, p)).collect(); let d = define_matrix(&format!("b{}", bi), k2, &vals, *h, *w); s.run(&d); defs.push(d); rc.push(format!("b{}", bi)); bi += 1; } cells.push(rc); }
        let lit = format!("[{}]", cells.iter().map(|r| r.join(" ")).collect::<Vec<_>>().join("; "));
        out.evaluations += 1; out.nontrivial += 1;
        let o = s.run(&format!("r := {}", lit));
        if let Outcome::Value(c) = &o { out.fail(format!("C11|mixed-kinds-accepted|{}+string", kind), format!("{}; r := {}", defs.join("; "), lit), format!("blocks of different kinds, got {}", c.short())); }
      }
    }
  }
}

impl Check for C11 {
  fn id(&self) -> &'static str { "C11" }
  fn level(&self) -> &'static str { "exploration" }
  fn unit_budget(&self, _t: Tier) -> Duration { Duration::from_secs(120) }
  fn drive(&mut self, tier: Tier, cfg: &PoolCfg, rep: &mut Report) {
    let n = self.gs.len() as u64;
    rep.rule = format!("{} grids of block shapes: every grid with <= 2 rows x <= 3 blocks, of 3 rows x <= 2 blocks (<= 4 blocks) and of 4 rows x 1 block with block dimensions in {{1,2}} (valid and invalid tilings alike), every single row and single column of 4..6 blocks (uniform height/width, the n-ary concatenation paths){}; x kinds (f64, u8, string{}) x block spellings (all variables; 1x1 blocks as scalars; one block written as a nested literal or as a formula); \
      block k holds 10(k+1)+position so that any misplacement shows; plus one block of another kind (must be rejected); evaluations = literals evaluated; non-trivial = all of them (block matrix fixed, or rejection required)", n,
      if tier == Tier::Thorough { ", every grid of 3 rows x <= 2 blocks with dimensions up to 3 (<= 5 blocks), every single row of 4 blocks over {1,3}^2" } else { "" }, if tier == Tier::Thorough { ", i64, bool, r64, c64" } else { "" });
    rep.assumptions = vec!["empty (_) entries and kinds for which block definitions are rejected are not judged".into()];
    rep.cov("bounds", json!({"grids": n}));
    let gs = self.gs.clone();
    rep.describe = Some(Box::new(move |_p, u| ("concat".to_string(), format!("grid {:?}", gs[u as usize]))));
    let mut jobs = range_jobs("", n, 8);
    jobs.extend(range_jobs("contexts", 6, 1));
    drive_ranges(cfg, rep, jobs);
    if rep.out.sets.get("concat_steps").map(|s| s.len()).unwrap_or(0) < 3 { rep.vacuity.push("fewer than 3 concatenation functions reached".into()); }
  }
}

/// Matrix literals whose blocks are bound locally (function parameters, match-arm bindings, comprehension generators; every local shadowed by a
/// global of another value): scalar blocks in every context, vector / matrix blocks as function parameters and match bindings.
fn context_unit(unit: u64, out: &mut WorkerOut) {
  use crate::ctx::{lv, Tpl};
  let kinds = ["f64", "u8", "string"];
  let kind = kinds[(unit % 3) as usize];
  let blocks = unit / 3 == 1;
  let lit = |v: i64| match kind { "u8" => format!("{}u8", v), "string" => format!("\"s{}\"", v), _ => v.to_string() };
  let mut s = Session::new();
  for d in [format!("a := {}", lit(91)), format!("b := {}", lit(92)), format!("c := {}", lit(93))] { s.run(&d); }
  let (ga, gb, gc) = if blocks { (format!("[{} {}]", lit(1), lit(2)), format!("[{} {}]", lit(3), lit(4)), format!("[{} {}; {} {}]", lit(5), lit(6), lit(7), lit(8))) } else { (lit(1), lit(2), lit(3)) };
  for d in [format!("ga := {}", ga), format!("gb := {}", gb), format!("gc := {}", gc)] { if !s.run(&d).is_value() { out.count("context_setup_rejected"); return; } }
  let pk = if blocks { format!("[{}]", kind) } else { kind.to_string() };
  let forms: Vec<&str> = if blocks { vec!["[a b]", "[a; b]", "[a; b; a]", "[a b; b a]", "[a; c]", "[c; a]", "[c c]", "[a b; c c]", "[c; a; b]"] }
    else { vec!["[a b]", "[a; b]", "[a b c]", "[a; b; c]", "[a b; c a]", "[a b c; c b a]", "[a; b; c; a]", "[a b c a]", "[a b c a b]", "[a; b; c; a; b]", "[b a; a b; c c]"] };
  let tpls: Vec<Tpl> = forms.iter().map(|f| {
    let tok = |name: &str| f.split(|ch: char| !ch.is_alphanumeric()).any(|t| t == name);
    let mut vars = vec![]; if tok("a") { vars.push(lv("a", "ga", &pk)); } if tok("b") { vars.push(lv("b", "gb", &pk)); } if tok("c") { vars.push(lv("c", "gc", &pk)); }
    let top: String = f.chars().map(|ch| match ch { 'a' => "ga".to_string(), 'b' => "gb".to_string(), 'c' => "gc".to_string(), o => o.to_string() }).collect();
    Tpl { local: f.to_string(), top, vars, scalar_operands: !blocks, set_ok: false, tag: format!("{}:{}{}", f, kind, if blocks { ":blocks" } else { "" }), fn_ok: true }
  }).collect();
  crate::ctx::judge_templates("C11", &mut s, &tpls, 0, &format!("a, b, c := 91.. (globals); ga := {}; gb := {}; gc := {}", ga, gb, gc), out);
}
