//! C03 — indexing reads exactly the addressed elements (1-based, column-major).
//! unit = a chunk of index expressions; inside: every shape x every kind (one session per (shape,kind)).
use super::c01::{define_matrix, elem_canon};
use super::*;
use crate::canon::Canon;
use crate::pool::*;
use crate::report::Report;
use crate::subject::*;
use serde_json::json;

#[derive(Clone, Debug, PartialEq)]
pub enum Ix { S(i64), V(Vec<i64>), R(i64, i64, bool), All, M(Vec<bool>) }

pub enum Sel { Ok(Vec<usize>), OutOfRange, BadMask, Unjudged }

impl Ix {
  pub fn text(&self) -> String {
    match self {
      Ix::S(k) => format!("{}", k),
      Ix::V(v) => format!("[{}]", v.iter().map(|x| x.to_string()).collect::<Vec<_>>().join(" ")),
      Ix::R(a, b, true) => format!("{}..={}", a, b),
      Ix::R(a, b, false) => format!("{}..{}", a, b),
      Ix::All => ":".into(),
      Ix::M(m) => format!("[{}]", m.iter().map(|x| x.to_string()).collect::<Vec<_>>().join(" ")),
    }
  }
  pub fn form(&self) -> &'static str {
    match self {
      Ix::S(_) => "scalar",
      Ix::V(v) => if v.len() == 1 { "vector1" } else { "vector" },
      // a range denoting a single index is its own form: the implementation evaluates it to a 1x1 index
      Ix::R(a, b, incl) => if (if *incl { *b } else { *b - 1 }) == *a { "range1" } else { "range" },
      Ix::All => "all",
      Ix::M(m) => if m.len() == 1 { "mask1" } else { "mask" },
    }
  }
  /// 0-based positions selected along a dimension of size `d`
  pub fn select(&self, d: usize) -> Sel {
    let inr = |k: i64| k >= 1 && (k as usize) <= d;
    match self {
      Ix::S(k) => if inr(*k) { Sel::Ok(vec![*k as usize - 1]) } else { Sel::OutOfRange },
      Ix::V(v) => if v.iter().all(|k| inr(*k)) { Sel::Ok(v.iter().map(|k| *k as usize - 1).collect()) } else { Sel::OutOfRange },
      Ix::R(a, b, incl) => {
        let hi = if *incl { *b } else { *b - 1 };
        // a range that is empty or descending is the business of C15, not of indexing
        if *a > hi || *a < 0 { return Sel::Unjudged; }
        if *a == 0 || !inr(*a) || !inr(hi) { return Sel::OutOfRange; }
        Sel::Ok((*a..=hi).map(|k| k as usize - 1).collect())
      }
      Ix::All => Sel::Ok((0..d).collect()),
      Ix::M(m) => {
        // a one-element logical index is the scalar-logical form (x[true] addresses everything, pinned by the
        // repository's own tests); it is not a mask over the dimension and is not judged here
        if m.len() == 1 { return Sel::Unjudged; }
        if m.len() != d { return Sel::BadMask; }
        Sel::Ok(m.iter().enumerate().filter(|(_, b)| **b).map(|(i, _)| i).collect())
      }
    }
  }
  pub fn is_core(&self) -> bool {
    match self {
      Ix::S(k) => [0, 1, 2, 5].contains(k),
      Ix::V(v) => v == &vec![1, 2] || v == &vec![2, 1] || v == &vec![2, 2] || v == &vec![1, 5],
      Ix::R(a, b, _) => (*a, *b) == (1, 2) || (*a, *b) == (2, 5),
      Ix::All => true,
      Ix::M(m) => m == &vec![true, false] || m == &vec![false, true, true] || m == &vec![true, false, true, true],
    }
  }
}

fn masks_exhaustive(maxlen: usize) -> Vec<Ix> {
  let mut v = vec![];
  for l in 1..=maxlen { for bits in 0..(1u32 << l) { v.push(Ix::M((0..l).map(|i| bits >> i & 1 == 1).collect())); } }
  v
}

/// one-dimensional (linear) index forms
pub fn ix1d(tier: Tier) -> Vec<Ix> {
  let u: Vec<i64> = tier.pick(vec![0, 1, 2, 3, 4, 5, 6, 7, 9, 10, 12, 13, 16, 17], (0..=21).collect());
  let mut v = vec![];
  for k in &u { v.push(Ix::S(*k)); }
  for a in &u { v.push(Ix::V(vec![*a])); }
  for a in &u { for b in &u { v.push(Ix::V(vec![*a, *b])); } }
  // every index vector of length 3 over a small pool, and of length 4 over {1,2,3,4} plus one invalid interior entry:
  // permuted, repeated, contiguous-looking and out-of-range interiors
  { let w: Vec<i64> = tier.pick(vec![0, 1, 2, 3, 4, 9], vec![0, 1, 2, 3, 4, 5, 9, 10]); for a in &w { for b in &w { for c in &w { v.push(Ix::V(vec![*a, *b, *c])); } } } }
  for a in 1..=4i64 { for b in 1..=4i64 { for c in 1..=4i64 { for d in 1..=4i64 { if tier == Tier::Thorough || (a + 2 * b + 3 * c + d) % 3 == 0 { v.push(Ix::V(vec![a, b, c, d])); } } } } }
  for (b, c) in [(0i64, 2i64), (9, 3), (2, 0), (3, 9)] { v.push(Ix::V(vec![1, b, c, 4])); }
  for a in &u { for b in &u { v.push(Ix::R(*a, *b, true)); v.push(Ix::R(*a, *b, false)); } }
  v.push(Ix::All);
  v.extend(masks_exhaustive(tier.pick(6, 8)));
  for l in tier.pick(7, 9)..=21usize {
    v.push(Ix::M(vec![true; l]));
    v.push(Ix::M(vec![false; l]));
    v.push(Ix::M((0..l).map(|i| i == 0).collect()));
    v.push(Ix::M((0..l).map(|i| i == l - 1).collect()));
    v.push(Ix::M((0..l).map(|i| i % 2 == 0).collect()));
  }
  v
}

/// per-dimension forms for two-dimensional indexing
pub fn ixdim(tier: Tier) -> Vec<Ix> {
  let smax = tier.pick(5, 7);
  let mut v = vec![];
  for k in 0..=smax { v.push(Ix::S(k)); }
  for k in [1i64, 2, 5] { v.push(Ix::V(vec![k])); }
  let w: Vec<i64> = tier.pick(vec![0, 1, 2, 4, 5], vec![0, 1, 2, 3, 4, 5, 6]);
  for a in &w { for b in &w { v.push(Ix::V(vec![*a, *b])); } }
  // per-dimension index vectors of length 3: permutations, repeats, an invalid entry between valid ones
  for t in [[1i64, 2, 3], [3, 2, 1], [1, 3, 2], [2, 2, 3], [1, 1, 3], [1, 0, 2], [1, 5, 2], [1, 9, 3], [2, 3, 1]] { v.push(Ix::V(t.to_vec())); }
  let rr = tier.pick(4, 6);
  for a in 0..=rr { for b in 0..=rr { v.push(Ix::R(a, b, true)); v.push(Ix::R(a, b, false)); } }
  v.push(Ix::All);
  v.extend(masks_exhaustive(tier.pick(4, 6)));
  for l in tier.pick(5, 7)..=tier.pick(5, 7) { v.push(Ix::M(vec![true; l])); v.push(Ix::M((0..l).map(|i| i % 2 == 0).collect())); }
  v
}

pub fn shapes(tier: Tier) -> Vec<(usize, usize)> {
  let mut v = vec![];
  for r in 1..=4 { for c in 1..=4 { v.push((r, c)); } }
  if tier == Tier::Thorough { v.extend([(1, 6), (6, 1), (2, 5), (5, 2)]); }
  v
}

pub fn storage_class(s: (usize, usize)) -> &'static str {
  match s { (1, 1) => "1x1", (1, _) => "row", (_, 1) => "col", _ => "mat" }
}

pub const FULL_KINDS: [&str; 3] = ["f64", "u8", "string"];
pub const REDUCED_KINDS: [&str; 13] = ["u16", "u32", "u64", "u128", "i8", "i16", "i32", "i64", "i128", "f32", "r64", "c64", "bool"];

pub fn elem_spelling(kind: &str, i: usize, j: usize) -> String {
  let n = 10 * (i + 1) + (j + 1);
  match kind {
    "string" => format!("\"s{}\"", n),
    "bool" => format!("{}", (i + j) % 2 == 0),
    "r64" => format!("{}/7", n),
    "c64" => format!("{}+1i", n),
    "f32" | "f64" => format!("{}.5", n),
    _ => format!("{}", n),
  }
}

pub fn matrix_values(kind: &str, r: usize, c: usize) -> Vec<String> {
  let mut v = vec![];
  for i in 0..r { for j in 0..c { v.push(elem_spelling(kind, i, j)); } }
  v
}

pub struct C03 { tier: Tier, one: Vec<Ix>, dim: Vec<Ix> }

pub const CHUNK: u64 = 160;

impl C03 {
  pub fn new(tier: Tier) -> C03 { C03 { tier, one: ix1d(tier), dim: ixdim(tier) } }
  pub fn n_exprs(&self) -> u64 { (self.one.len() + self.dim.len() * self.dim.len()) as u64 }
  pub fn expr(&self, e: u64) -> (Ix, Option<Ix>) {
    let e = e as usize;
    if e < self.one.len() { (self.one[e].clone(), None) } else { let k = e - self.one.len(); (self.dim[k / self.dim.len()].clone(), Some(self.dim[k % self.dim.len()].clone())) }
  }
}

/// (storage class | form pair) combinations observed to produce a value (quick tier, unchanged tree)
pub const PINNED_SUPPORTED: &str = include_str!("c03_supported.txt");

pub enum Expect { Elems(Vec<usize>, Option<(usize, usize)>, bool), MustError(&'static str), /// a valid index that selects nothing: an error or a result without elements, never some element
  Empty, Unjudged }

/// reference model: which (row-major positions of x) are read, the documented result shape (None = any vector orientation), scalar?
pub fn reference(shape: (usize, usize), a: &Ix, b: &Option<Ix>) -> Expect {
  let (r, c) = shape;
  match b {
    None => {
      match a.select(r * c) {
        Sel::Ok(lin) => {
          if lin.is_empty() { return Expect::Empty; }
          // linear, column-major: position p -> (p % r, p / r)
          let pos: Vec<usize> = lin.iter().map(|p| (p % r) * c + (p / r)).collect();
          let scalar = matches!(a, Ix::S(_));
          let shp = if matches!(a, Ix::All) { Some((r * c, 1)) } else { None };
          Expect::Elems(pos, shp, scalar)
        }
        Sel::OutOfRange => Expect::MustError("out-of-range-accepted"),
        Sel::BadMask => Expect::MustError("mask-length-accepted"),
        Sel::Unjudged => Expect::Unjudged,
      }
    }
    Some(b) => {
      let (sa, sb) = (a.select(r), b.select(c));
      match (&sa, &sb) {
        (Sel::Unjudged, _) | (_, Sel::Unjudged) => Expect::Unjudged,
        (Sel::OutOfRange, _) | (_, Sel::OutOfRange) => Expect::MustError("out-of-range-accepted"),
        (Sel::BadMask, _) | (_, Sel::BadMask) => Expect::MustError("mask-length-accepted"),
        (Sel::Ok(ri), Sel::Ok(ci)) => {
          if ri.is_empty() || ci.is_empty() { return Expect::Empty; }
          let mut pos = vec![];
          for i in ri { for j in ci { pos.push(i * c + j); } }
          let scalar = matches!(a, Ix::S(_)) && matches!(b, Ix::S(_));
          Expect::Elems(pos, Some((ri.len(), ci.len())), scalar)
        }
      }
    }
  }
}

pub const INDEX_KINDS: [&str; 12] = ["u8", "u16", "u32", "u64", "u128", "i8", "i16", "i32", "i64", "i128", "f32", "f64"];

impl C03 {
  pub fn main_units(&self) -> u64 { (self.n_exprs() + CHUNK - 1) / CHUNK }
  pub fn kind_units(&self) -> u64 { (shapes(self.tier).len() * INDEX_KINDS.len()) as u64 }

  /// index values of every numeric kind: the same read with the index held in a typed variable (scalar / vector), written as a
  /// suffixed literal, and spelled out as a plain literal must give the identical outcome (the plain spelling is judged by the main family)
  fn index_kind_unit(&mut self, u: u64, out: &mut WorkerOut) {
    let shp = shapes(self.tier);
    let shape = shp[(u as usize) / INDEX_KINDS.len()];
    let ik = INDEX_KINDS[(u as usize) % INDEX_KINDS.len()];
    let (r, c) = (shape.0 as i64, shape.1 as i64);
    let n = r * c;
    let sc = storage_class(shape);
    // (plain text, typed-variable text, definitions needed)
    let mut defs: Vec<String> = vec![];
    let mut scal = |k: i64, defs: &mut Vec<String>| -> (String, String, String) {
      let name = format!("s{}", (b'a' + k as u8) as char);
      let d = format!("{}<{}> := {}", name, ik, k);
      if !defs.contains(&d) { defs.push(d); }
      let suffixed = if ik.starts_with('f') { format!("{}.0{}", k, ik) } else { format!("{}{}", k, ik) };
      (k.to_string(), name, suffixed)
    };
    let mut vecs = |v: &[i64], defs: &mut Vec<String>| -> (String, String, String) {
      let name = format!("v{}", v.iter().map(|x| ((b'a' + *x as u8) as char).to_string()).collect::<Vec<_>>().join(""));
      let plain = format!("[{}]", v.iter().map(|x| x.to_string()).collect::<Vec<_>>().join(" "));
      let d = format!("{}<[{}]> := {}", name, ik, plain);
      if !defs.contains(&d) { defs.push(d); }
      (plain.clone(), name, plain)
    };
    let mut reads: Vec<(String, String, String, String)> = vec![]; // (forms, plain, typed variable, suffixed)
    let mut ks: Vec<i64> = vec![0, 1, 2, n, n + 1]; ks.dedup();
    for k in &ks { let (p, t, x) = scal(*k, &mut defs); reads.push(("scalar".into(), p, t, x)); }
    let mut vs: Vec<Vec<i64>> = vec![vec![1, 2], vec![2, 1], vec![n, 1], vec![1, n + 1], vec![1, 0]];
    if n >= 3 { vs.push(vec![1, 2, 3]); vs.push(vec![3, 1, 2]); vs.push(vec![1, n + 1, 2]); }
    for v in &vs { let (p, t, x) = vecs(v, &mut defs); reads.push(("vector".into(), p, t, x)); }
    let mut rs: Vec<i64> = vec![0, 1, r, r + 1]; rs.dedup();
    let mut cs: Vec<i64> = vec![0, 1, c, c + 1]; cs.dedup();
    for i in &rs { for j in &cs {
      let (pi, ti, xi) = scal(*i, &mut defs); let (pj, tj, xj) = scal(*j, &mut defs);
      reads.push(("scalar,scalar".into(), format!("{},{}", pi, pj), format!("{},{}", ti, tj), format!("{},{}", xi, xj)));
      reads.push(("scalar,scalar(mixed)".into(), format!("{},{}", pi, pj), format!("{},{}", ti, pj), format!("{},{}", pi, xj)));
    } }
    let ivs: Vec<Vec<i64>> = vec![vec![1, r], vec![r, 1], vec![1, r + 1]];
    let jvs: Vec<Vec<i64>> = vec![vec![1, c], vec![c, 1], vec![1, c + 1]];
    for iv in &ivs {
      let (pi, ti, _) = vecs(iv, &mut defs);
      for j in [1, c] { let (pj, tj, xj) = scal(j, &mut defs); reads.push(("vector,scalar".into(), format!("{},{}", pi, pj), format!("{},{}", ti, tj), format!("{},{}", pi, xj))); }
      reads.push(("vector,all".into(), format!("{},:", pi), format!("{},:", ti), format!("{},:", pi)));
      for jv in &jvs { let (pj, tj, _) = vecs(jv, &mut defs); reads.push(("vector,vector".into(), format!("{},{}", pi, pj), format!("{},{}", ti, tj), format!("{},{}", ti, pj))); }
    }
    for jv in &jvs {
      let (pj, tj, _) = vecs(jv, &mut defs);
      for i in [1, r] { let (pi, ti, xi) = scal(i, &mut defs); reads.push(("scalar,vector".into(), format!("{},{}", pi, pj), format!("{},{}", ti, tj), format!("{},{}", xi, pj))); }
      reads.push(("all,vector".into(), format!(":,{}", pj), format!(":,{}", tj), format!(":,{}", pj)));
    }
    for xk in ["f64", "u8"] {
      let vals = matrix_values(xk, shape.0, shape.1);
      let def = define_matrix("x", xk, &vals, shape.0, shape.1);
      let mut s = Session::new();
      if !s.run(&def).is_value() { continue; }
      let cx = s.get("x");
      let mut defined = std::collections::BTreeSet::new();
      for d in &defs { if s.run(d).is_value() { defined.insert(d.split('<').next().unwrap().to_string()); } else { out.count("typed_index_define_rejected"); } }
      for (n, (forms, plain, typed, suffixed)) in reads.iter().enumerate() {
        let o = s.run(&format!("p{} := x[{}]", n, plain));
        for (spelling, text) in [("typed-variable", typed), ("suffixed-literal", suffixed)] {
          if text == plain { continue; }
          if text.split(',').any(|t| (t.starts_with('s') || t.starts_with('v')) && !defined.contains(t)) { continue; }
          out.evaluations += 1;
          let ot = s.run(&format!("t{}{} := x[{}]", n, &spelling[..1], text));
          // `1i8` is read as an imaginary literal followed by `8` in this grammar: a spelling that does not parse is not an index
          if matches!(ot, Outcome::ParseError) { out.evaluations -= 1; out.count("suffixed_spelling_not_in_the_grammar"); continue; }
          let same = match (&o, &ot) { (Outcome::Value(x), Outcome::Value(y)) => x == y, (Outcome::Value(_), _) | (_, Outcome::Value(_)) => false, (_, Outcome::Panic(_)) => false, _ => true };
          if same { out.nontrivial += 1; out.count(&format!("index_kind_agrees:{}", spelling)); out.set("index_kinds_reached", &format!("{}|{}|{}", ik, spelling, forms)); }
          else { out.fail(format!("C03|index-kind-differs|{}:{}:{}@{}", ik, spelling, forms, sc), format!("{}; {}; r := x[{}]", def, defs.iter().filter(|d| text.split(',').any(|t| d.starts_with(&format!("{}<", t)))).cloned().collect::<Vec<_>>().join("; "), text), format!("with the plain literal index x[{}] gives {}, with the {} index {}", plain, o.short(), ik, ot.short())); }
        }
      }
      if s.get("x") != cx { out.fail(format!("C03|source-modified|{}@{}", xk, sc), format!("{}; typed-index reads ({})", def, ik), format!("x is now {:?}", s.get("x").map(|c| c.short()))); }
    }
  }
}

impl UnitRunner for C03 {
  fn unit(&mut self, _payload: &str, unit: u64, out: &mut WorkerOut) {
    if _payload == "contexts" { return self.context_unit(unit, out); }
    if unit >= self.main_units() { return self.index_kind_unit(unit - self.main_units(), out); }
    let lo = unit * CHUNK;
    let hi = (lo + CHUNK).min(self.n_exprs());
    let exprs: Vec<(Ix, Option<Ix>)> = (lo..hi).map(|e| self.expr(e)).collect();
    let stmts: Vec<String> = exprs.iter().enumerate().map(|(n, (a, b))| match b {
      None => format!("r{} := x[{}]", n, a.text()),
      Some(b) => format!("r{} := x[{},{}]", n, a.text(), b.text()),
    }).collect();
    for shape in shapes(self.tier) {
      let sc = storage_class(shape);
      for (ki, kind) in FULL_KINDS.iter().chain(REDUCED_KINDS.iter()).enumerate() {
        let reduced = ki >= FULL_KINDS.len();
        if reduced && !exprs.iter().any(|(a, b)| a.is_core() && b.as_ref().map(|b| b.is_core()).unwrap_or(true)) { continue; }
        let vals = matrix_values(kind, shape.0, shape.1);
        let def = define_matrix("x", kind, &vals, shape.0, shape.1);
        let mut s = Session::new();
        let ox = s.run(&def);
        let cx = match ox.value() { Some(c) => c.clone(), None => { out.fail(format!("C03|operand-define-rejected|{}", kind), def.clone(), ox.short()); continue; } };
        let expect_elems: Vec<Canon> = vals.iter().map(|v| elem_canon(kind, v)).collect();
        for (n, (a, b)) in exprs.iter().enumerate() {
          if reduced && !(a.is_core() && b.as_ref().map(|b| b.is_core()).unwrap_or(true)) { continue; }
          out.evaluations += 1;
          let o = s.run(&stmts[n]);
          let forms = match b { None => a.form().to_string(), Some(b) => format!("{},{}", a.form(), b.form()) };
          let idx_text = match b { None => a.text(), Some(b) => format!("{},{}", a.text(), b.text()) };
          let case = format!("{}; r := x[{}]", def, idx_text);
          let locus = format!("{}@{}", forms, sc);
          if let Outcome::Panic(m) = &o { out.fail(format!("C03|panic|{}", locus), case, m.clone()); continue; }
          match reference(shape, a, b) {
            Expect::Unjudged => { out.count("unjudged(empty selection / degenerate range)"); }
            Expect::Empty => {
              out.nontrivial += 1;
              out.count("selects_nothing");
              if let Outcome::Value(c) = &o {
                let n_elems = match c.as_matrix() { Some((r, cc, _)) => r * cc, None => 1 };
                if n_elems != 0 { out.fail(format!("C03|empty-selection-returns-elements|{}", locus), case, format!("the index selects no element of a {}x{} matrix, got {}", shape.0, shape.1, c.short())); }
                else { out.count("selects_nothing:empty_result"); }
              } else { out.count("selects_nothing:rejected"); }
            }
            Expect::MustError(cls) => {
              out.nontrivial += 1;
              out.count("addresses_no_element");
              if let Outcome::Value(c) = &o {
                let n_elems = match c.as_matrix() { Some((r, cc, _)) => r * cc, None => 1 };
                // an empty result returns no "other element": tolerated (the other dimension selected nothing)
                if n_elems == 0 { out.count("addresses_no_element_but_empty_result"); }
                else { out.fail(format!("C03|{}|{}", cls, locus), case, format!("the index addresses no element of a {}x{} matrix, got {}", shape.0, shape.1, c.short())); }
              }
            }
            Expect::Elems(pos, shp, scalar) => {
              match &o {
                Outcome::Value(c) => {
                  out.nontrivial += 1;
                  out.set("supported", &format!("{}|{}", sc, forms));
                  out.set("supported_by_kind", &format!("{}|{}|{}", sc, forms, kind));
                  let want: Vec<Canon> = pos.iter().map(|p| expect_elems[*p].clone()).collect();
                  let (gshape, got): (Option<(usize, usize)>, Vec<Canon>) = match c.as_matrix() { Some((r, cc, e)) => (Some((r, cc)), e.clone()), None => (None, vec![c.clone()]) };
                  // elements in order: for a documented 2-D shape compare row-major; for 1-D results any orientation (vector) is accepted
                  let elems_ok = got == want;
                  if !elems_ok {
                    out.fail(format!("C03|wrong-elements|{}", locus), case, format!("reference selects {:?}, got {}", want.iter().map(|w| w.bare()).collect::<Vec<_>>(), c.short()));
                  } else {
                    let shape_ok = match (shp, gshape) {
                      (_, None) => want.len() == 1,            // a scalar result for a single element
                      (Some(es), Some(gs)) => es == gs,
                      (None, Some(gs)) => (gs.0 == 1 || gs.1 == 1) && gs.0 * gs.1 == want.len(),
                    };
                    if scalar && gshape.is_some() { out.fail(format!("C03|wrong-shape|{}", locus), case, format!("scalar index must give a scalar, got {}", c.short())); }
                    else if !shape_ok { out.fail(format!("C03|wrong-shape|{}", locus), case, format!("documented shape {:?}, got {}", shp, c.short())); }
                  }
                }
                Outcome::Error(e) => {
                  out.count("in_range_rejected");
                  // judged by the driver: a violation only where the same form pair is demonstrably supported on this storage class
                  out.fail(format!("C03|in-range-rejected|{}", locus), case, format!("in-range index rejected with Err({}) although this form pair is accepted for other in-range values/kinds on {} storage", e, sc));
                }
                _ => {}
              }
            }
          }
          // the same index given through variables (scalar, vector and mask positions; ranges and ':' stay spelled out) must read the same
          if ki == 0 && !matches!(o, Outcome::Panic(_)) {
            let via = |ix: &Ix, name: String, s: &mut Session| -> Option<String> { match ix { Ix::S(_) | Ix::V(_) | Ix::M(_) => { if s.run(&format!("{} := {}", name, ix.text())).is_value() { Some(name) } else { None } } _ => Some(ix.text()) } };
            let ta = via(a, format!("i{}a", n), &mut s);
            let tb = match b { Some(b) => via(b, format!("i{}b", n), &mut s).map(Some), None => Some(None) };
            let any_var = matches!(a, Ix::S(_) | Ix::V(_) | Ix::M(_)) || b.as_ref().map(|b| matches!(b, Ix::S(_) | Ix::V(_) | Ix::M(_))).unwrap_or(false);
            if let (Some(ta), Some(tb), true) = (ta, tb, any_var) {
              out.evaluations += 1;
              let text = match &tb { Some(tb) => format!("{},{}", ta, tb), None => ta.clone() };
              let ov = s.run(&format!("v{} := x[{}]", n, text));
              let same = match (&o, &ov) { (Outcome::Value(x), Outcome::Value(y)) => x == y, (Outcome::Value(_), _) | (_, Outcome::Value(_)) => false, (_, Outcome::Panic(_)) => false, _ => true };
              if same { out.count("index_through_variables_agrees"); if ov.is_value() { out.nontrivial += 1; } }
              else { out.fail(format!("C03|index-through-variable-differs|{}", locus), format!("{}; index {} given as variables", def, idx_text), format!("spelled out {}, through variables {}", o.short(), ov.short())); }
            }
          }
          if unit % 13 == 0 && n == 0 && ki == 0 && shape == (3, 3) { out.sample(json!({"program": format!("{}; r := x[{}]", def, idx_text), "observed": o.short()})); }
        }
        if s.get("x").as_ref() != Some(&cx) {
          out.fail(format!("C03|source-modified|{}@{}", kind, sc), format!("{}; {} reads", def, stmts.len()), format!("x is now {:?}", s.get("x").map(|c| c.short())));
        }
      }
    }
  }
}

/// index templates over the local names i, j, k (scalars): every per-dimension form in either position
pub const CTX_FORMS: [&str; 24] = ["i", "i..=j", "i..j", "[i j]", "[j i j]", "i, k", "i, :", ":, k", "i..=j, k", "k, i..=j", "i..=j, i..=j", "[i j], k", "k, [i j]", "[i j], [j i]", "i..=j, :", ":, i..=j", "[j i], :", ":, [i j]", "[i j], i..=j", "i..=j, [j i]", "i..j, k", "k, i..j", "i + 1, k", "k, j - 1"];

impl C03 {
  /// The same reads with the index values bound locally (function parameters, match-arm bindings, comprehension generators) and shadowed by
  /// globals of other values: each must return what the read returns with global index variables.
  fn context_unit(&mut self, unit: u64, out: &mut WorkerOut) {
    let shapes: [(usize, usize); 4] = [(3, 4), (1, 5), (5, 1), (4, 3)];
    let kinds = ["f64", "u8"];
    let (si, ki) = ((unit % 4) as usize, (unit / 4) as usize);
    if ki >= kinds.len() { return; }
    let (r, c) = shapes[si];
    let kind = kinds[ki];
    let vals: Vec<String> = (0..r * c).map(|n| format!("{}", 10 + n)).collect();
    let mut s = Session::new();
    if !s.run(&super::c01::define_matrix("x", kind, &vals, r, c)).is_value() { out.count("context_setup_rejected"); return; }
    // shadows: globals named like the local index names, holding other (valid) positions
    for d in ["i := 1", "j := 1", "k := 1"] { s.run(d); }
    // ... and a global named like the locally bound matrix, of the same shape, holding other elements
    { let shadow: Vec<String> = (0..r * c).map(|n| format!("{}", 70 + n)).collect(); s.run(&super::c01::define_matrix("m", kind, &shadow, r, c)); }
    let mut n = 0usize;
    for (iv, jv, kv) in [(1usize, 2usize, 2usize), (2, 3, 1), (2, 2, 3), (1, 3, 4), (3, 5, 1), (0, 2, 1), (2, 6, 2)] {
      n += 1;
      let (gi, gj, gk) = (format!("gi{}", n), format!("gj{}", n), format!("gk{}", n));
      for d in [format!("{} := {}", gi, iv), format!("{} := {}", gj, jv), format!("{} := {}", gk, kv)] { s.run(&d); }
      for (fi, form) in CTX_FORMS.iter().enumerate() {
        let uses = |name: &str| form.split(|ch: char| !ch.is_alphanumeric()).any(|t| t == name);
        let top: String = form.split_inclusive(|ch: char| !ch.is_alphanumeric()).map(|tok| { let (w, rest) = match tok.char_indices().last() { Some((p, ch)) if !ch.is_alphanumeric() => (&tok[..p], &tok[p..]), _ => (tok, "") }; format!("{}{}", match w { "i" => gi.as_str(), "j" => gj.as_str(), "k" => gk.as_str(), o => o }, rest) }).collect();
        out.evaluations += 1;
        let uniq = n * 100 + fi;
        let base = s.run(&format!("lcb{} := x[{}]", uniq, top));
        let mut vars = vec![];
        if uses("i") { vars.push(crate::ctx::lv("i", &gi, "f64")); }
        if uses("j") { vars.push(crate::ctx::lv("j", &gj, "f64")); }
        if uses("k") { vars.push(crate::ctx::lv("k", &gk, "f64")); }
        let two_d = form.contains(',') && !form.starts_with('[') || form.matches(',').count() >= 1 && form.contains("],") || form.contains(", [") || form.contains(", :") || form.starts_with(":,");
        let result_is_matrix = form.contains("..") || form.contains('[') || form.contains(':');
        let out_kind = if result_is_matrix { format!("[{}]", kind) } else { kind.to_string() };
        // contexts that see the global x (match arm, comprehensions) ...
        let mut res = crate::ctx::eval_in_contexts(&mut s, uniq, &vars, &format!("x[{}]", form), &out_kind, "x[1]", true, false);
        res.retain(|(c, _, _)| *c != crate::ctx::CONTEXTS[0]);
        // ... and a function, which only sees its parameters: x is passed too
        let mut fvars = vec![crate::ctx::lv("m", "x", &format!("[{}]", kind))];
        fvars.extend(vars.iter().map(|v| crate::ctx::lv(&v.local, &v.global, &v.kind)));
        let fres = crate::ctx::eval_in_contexts(&mut s, uniq + 50000, &fvars, &format!("m[{}]", form), &out_kind, "x[1]", false, false);
        // the matrix itself bound locally (function parameter, match-arm binding, machine state variable), shadowed by the global m
        res.extend(fres.into_iter().filter(|(c, _, _)| *c == crate::ctx::CONTEXTS[0] || *c == crate::ctx::CONTEXTS[1] || *c == crate::ctx::CONTEXTS[4]).map(|(c, t, o)| (c, format!("(matrix bound locally) {}", t), o)));
        let _ = two_d;
        for (ctx, text, o) in res {
          out.evaluations += 1;
          // a scalar fallback arm next to a matrix-valued arm is rejected by the arm-kind diagnostics: the match context needs a like-kinded fallback
          let case = format!("x<[{}]>: {}x{} holding 10..; i := 1; j := 1; k := 1 (globals); {} := {}; {} := {}; {} := {}; {}   versus r := x[{}]", kind, r, c, gi, iv, gj, jv, gk, kv, text, top);
          match crate::ctx::differs(&base, ctx, &o) {
            None => { if base.is_value() { out.nontrivial += 1; } out.count(&format!("context_agrees:{}", ctx)); }
            Some(d) => out.fail(format!("C03|local-context-differs|{}:x[{}]@{}", ctx, form, storage_class((r, c))), case, d),
          }
        }
      }
    }
  }
}

impl Check for C03 {
  fn id(&self) -> &'static str { "C03" }
  fn level(&self) -> &'static str { "exploration" }
  fn unit_budget(&self, _t: Tier) -> Duration { Duration::from_secs(120) }
  fn drive(&mut self, tier: Tier, cfg: &PoolCfg, rep: &mut Report) {
    let n = self.n_exprs();
    let units = (n + CHUNK - 1) / CHUNK;
    rep.rule = format!("every index expression of the bounded grammar ({} one-dimensional forms: scalars, vectors with repeats, inclusive/exclusive ranges, ':', all masks up to length {}; {} per-dimension forms squared for two dimensions) \
      x every shape ({}) x kinds (f64,u8,string on all expressions; 13 further kinds on the core expressions); evaluations = reads executed; non-trivial = reads the reference model fixes (in-range: elements+shape, addressing no element: must be rejected); \
      each read is followed by a frame check of x", self.one.len(), tier.pick(6, 8), self.dim.len(), shapes(tier).len());
    rep.assumptions = vec![
      "negative and fractional indices, x[:,:] on unsupported storage, index matrices (2-D index arguments), empty selections and degenerate ranges are not judged".into(),
      "an in-range form pair that is rejected for every kind and every value on a storage class counts as unsupported (outside the statement) unless it is on the pinned list of combinations that worked when the check was written (c03_supported.txt); rejected only for some is a violation".into(),
      "index values of kind u8..i128, f32, f64 (typed scalar / vector variables and suffixed literals, 1-D and 2-D forms, every shape, boundary and out-of-range positions) are compared with the plain literal spelling".into(),
      "result orientation of one-dimensional vector/range/mask reads is not fixed by the documentation: any vector orientation with the right elements in order is accepted".into(),
    ];
    rep.cov("bounds", json!({"index_expressions": n, "shapes": shapes(tier), "chunk": CHUNK}));
    let mut jobs = range_jobs("", units + self.kind_units(), 1);
    jobs.extend(range_jobs("contexts", 8, 1));
    drive_ranges(cfg, rep, jobs);
    let ikr = rep.out.sets.get("index_kinds_reached").map(|s| s.len()).unwrap_or(0);
    if ikr < 100 { rep.vacuity.push(format!("only {} (index kind, spelling, form) combinations agreed with a value or an error", ikr)); }
    rep.cov("index_kind_family", json!({"kinds": INDEX_KINDS, "units": self.kind_units(), "oracle": "typed-variable and suffixed-literal index values must give the outcome of the plain literal index (judged by the main family)"}));
    // in-range-rejected: keep only where the form pair is supported on that storage class
    let supported = rep.out.sets.get("supported").cloned().unwrap_or_default();
    let before = rep.out.failures.len();
    rep.out.failures.retain(|f| {
      if let Some(rest) = f.key.strip_prefix("C03|in-range-rejected|") {
        let mut it = rest.split('@');
        let forms = it.next().unwrap_or("");
        let sc = it.next().unwrap_or("");
        // pinned: the (storage, form pair) combinations that produced a value on the tree this check was written against stay judged
        // even when a change makes every read of that form fail (otherwise a form that stops working altogether would look unsupported)
        let k = format!("{}|{}", sc, forms);
        supported.contains(&k) || PINNED_SUPPORTED.lines().any(|l| l == k)
      } else { true }
    });
    rep.cov("in_range_rejections_on_unsupported_form_pairs", json!(before - rep.out.failures.len()));
    rep.cov("supported_form_pairs", json!(supported));
    rep.out.sets.remove("supported_by_kind");
    if supported.len() < 20 { rep.vacuity.push(format!("only {} (storage, form pair) combinations produced a value", supported.len())); }
  }
}
