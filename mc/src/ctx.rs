//! Local-environment contexts: the same expression evaluated where its free names are bound *locally* (function parameters, names bound by
//! a match arm's pattern, generators of a matrix / set comprehension) instead of being global variables. The interpreter threads an
//! `env` through every sub-expression evaluator; an evaluator that drops or mixes it up reads the global of the same name (or none), so
//! every local name is shadowed by a global holding a *different* value. Differential oracle: the value in each context must equal the
//! value of the same expression over global variables (flattened elements and element kind).
use crate::canon::Canon;
use crate::subject::*;

pub struct LVar { /// name used inside the expression
  pub local: String, /// global variable that holds the operand (defined by the caller)
  pub global: String, /// kind annotation for a function parameter, e.g. "f64" or "[u8]"
  pub kind: String }

pub fn lv(local: &str, global: &str, kind: &str) -> LVar { LVar { local: local.into(), global: global.into(), kind: kind.into() } }

pub const CONTEXTS: [&str; 5] = ["function-parameters", "match-arm-bindings", "matrix-comprehension-generators", "set-comprehension-generators", "machine-state-variables"];

/// (element kind, flattened elements) of a value: what a comprehension keeps of the value of its body
pub fn flat(c: &Canon) -> (String, Vec<String>) {
  match c {
    Canon::Matrix(k, _, _, e, _) => (k.clone(), e.iter().map(|x| x.bare()).collect()),
    Canon::Set(_, e, _) => { let mut v: Vec<String> = e.iter().map(|x| x.short()).collect(); v.sort(); ("set".into(), v) }
    other => (other.kind_name(), vec![other.bare()]),
  }
}

/// Evaluate `expr` (written over the local names) in every context. `out_kind` is the function's declared output kind, `fallback` an
/// expression over globals of the same kind as the result (the `*` arm of the match), `scalar_operands` says whether the operands are
/// scalars (only then can a comprehension generator bind them one at a time). Returns (context, statement text, outcome of the binding r).
pub fn eval_in_contexts(s: &mut Session, uniq: usize, vars: &[LVar], expr: &str, out_kind: &str, fallback: &str, scalar_operands: bool, set_ok: bool) -> Vec<(&'static str, String, Outcome)> {
  let mut res = vec![];
  let names: Vec<&str> = vars.iter().map(|v| v.local.as_str()).collect();
  let pat = if names.len() == 1 { names[0].to_string() } else { format!("({})", names.join(", ")) };
  // function parameters
  {
    let def = format!("lcf{}({}) => <{}>\n  | {} => {}.", uniq, vars.iter().map(|v| format!("{}<{}>", v.local, v.kind)).collect::<Vec<_>>().join(", "), out_kind, pat, expr);
    let call = format!("lcr{}f := lcf{}({})", uniq, uniq, vars.iter().map(|v| v.global.clone()).collect::<Vec<_>>().join(", "));
    let d = s.run(&def);
    let o = if d.is_value() { s.run(&call) } else { d };
    res.push((CONTEXTS[0], format!("{} ;; {}", def.replace('\n', " "), call), o));
  }
  // match arm
  {
    let (subject, pre) = if names.len() == 1 { (vars[0].global.clone(), None) } else { (format!("lct{}", uniq), Some(format!("lct{} := ({})", uniq, vars.iter().map(|v| v.global.clone()).collect::<Vec<_>>().join(", ")))) };
    let stmt = format!("lcr{}m := {}? | {} => {} | * => {}.", uniq, subject, pat, expr, fallback);
    let ok = match &pre { Some(p) => s.run(p).is_value(), None => true };
    let o = if ok { s.run(&stmt) } else { Outcome::Error("tuple-of-operands-rejected".into()) };
    res.push((CONTEXTS[1], format!("{}{}", pre.map(|p| format!("{} ;; ", p)).unwrap_or_default(), stmt), o));
  }
  // state variables of a machine: the expression is the payload of the transition into the output state. A machine that rejects the
  // declaration or the operand kinds is not judged (value outcomes only): machines restrict payload kinds more than the other contexts do.
  {
    let decl = vars.iter().map(|v| format!("{}<{}>", v.local, v.kind)).collect::<Vec<_>>().join(", ");
    let def = format!("#Lcq{u}({d}) => <{o}>\n  ├ :A({d})\n  └ :D(r<{o}>).\n\n#Lcq{u}({d}) -> :A({n})\n  :A({n}) -> :D({e})\n  :D(r) => r.", u = uniq, d = decl, o = out_kind, n = names.join(", "), e = expr);
    let call = format!("lcr{}q := #Lcq{}({})", uniq, uniq, vars.iter().map(|v| v.global.clone()).collect::<Vec<_>>().join(", "));
    let d = s.run(&def);
    let o = if d.is_value() { s.run(&call) } else { d };
    if o.is_value() || matches!(o, Outcome::Panic(_)) { res.push((CONTEXTS[4], format!("{} ;; {}", def.replace('\n', " ⏎ "), call), o)); }
  }
  if scalar_operands {
    let gens = |open: char, close: char| vars.iter().map(|v| format!("{} <- {}{}{}", v.local, open, v.global, close)).collect::<Vec<_>>().join(", ");
    let stmt = format!("lcr{}c := [ {} | {} ]", uniq, expr, gens('[', ']'));
    let o = s.run(&stmt);
    res.push((CONTEXTS[2], stmt, o));
    if set_ok {
      let stmt = format!("lcr{}s := {{ {} | {} }}", uniq, expr, gens('{', '}'));
      let o = s.run(&stmt);
      res.push((CONTEXTS[3], stmt, o));
    }
  }
  res
}

/// compare a context outcome with the top-level outcome: None = agree, Some(detail) = differ
pub fn differs(base: &Outcome, ctx: &'static str, got: &Outcome) -> Option<String> {
  match (base, got) {
    (Outcome::Value(b), Outcome::Value(g)) => {
      let (bk, be) = flat(b); let (gk, ge) = flat(g);
      if ctx == CONTEXTS[3] {
        // a set comprehension keeps the value of its body as one element
        let want = b.short();
        if let Canon::Set(_, e, _) = g { if e.len() == 1 && (e[0].short() == want || (matches!(b, Canon::Set(..)) && flat(&e[0]) == flat(b))) { return None; } }
        return Some(format!("over globals {}, as the one element of the comprehension {}", b.short(), g.short()));
      }
      // a comprehension keeps the elements of a matrix-valued body, in an order of its own: compared as a multiset
      let (be, ge) = if ctx == CONTEXTS[2] && matches!(b, Canon::Matrix(_, r, c, _, _) if *r > 1 && *c > 1) { let (mut x, mut y) = (be, ge); x.sort(); y.sort(); (x, y) } else { (be, ge) };
      // a bracketed payload of a machine transition is an array *pattern* rebuilt into a matrix of values: its elements are judged, not its kind
      if be == ge && (bk == gk || ge.is_empty() || (ctx == CONTEXTS[4] && gk == "value")) { None } else { Some(format!("over globals {} , in this context {}", b.short(), g.short())) }
    }
    (Outcome::Value(b), other) => Some(format!("over globals {} , in this context {}", b.short(), other.short())),
    (_, Outcome::Panic(m)) => Some(format!("host panic: {}", m)),
    (other, Outcome::Value(g)) => Some(format!("over globals {} , in this context {}", other.short(), g.short())),
    _ => None,
  }
}

/// one expression template: `local` is written over local names, `top` is the same expression over the globals that hold the operands
pub struct Tpl { pub local: String, pub top: String, pub vars: Vec<LVar>, pub scalar_operands: bool, pub set_ok: bool, pub tag: String, /// false when the expression reads globals (a function body only sees its parameters) or takes operands of a kind a parameter cannot declare
  pub fn_ok: bool }

fn kind_text(c: &Canon) -> String {
  match c { Canon::Matrix(k, ..) => format!("[{}]", k), Canon::Set(k, ..) => format!("{{{}}}", k), other => other.kind_name() }
}

/// evaluate every template over globals and in every local context; report disagreements as `<id>|local-context-differs|<ctx>:<tag>`
pub fn judge_templates(id: &str, s: &mut Session, tpls: &[Tpl], uniq0: usize, preamble: &str, out: &mut crate::pool::WorkerOut) {
  for (ti, t) in tpls.iter().enumerate() {
    let uniq = uniq0 + ti;
    out.evaluations += 1;
    let base = s.run(&format!("lcb{} := {}", uniq, t.top));
    let Outcome::Value(bc) = &base else { out.count("context_base_rejected"); continue; };
    let rk = kind_text(bc);
    let res = eval_in_contexts(s, uniq, &t.vars, &t.local, &rk, &t.top, t.scalar_operands, t.set_ok);
    let plain = matches!(bc, Canon::Num(..) | Canon::Bool(..) | Canon::Str(..) | Canon::Matrix(..));
    for (ctx, text, o) in res {
      if ctx == CONTEXTS[0] && !t.fn_ok { continue; }
      // a bracketed transition payload is an array pattern (rebuilt element by element), not a matrix literal
      if ctx == CONTEXTS[4] && t.local.trim_start().starts_with('[') { continue; }
      // a matrix comprehension can only collect numbers, Booleans, strings and matrices of them
      if ctx == CONTEXTS[2] && !plain { continue; }
      out.evaluations += 1;
      let case = format!("{} ;; {}   versus r := {}", preamble, text, t.top);
      match differs(&base, ctx, &o) {
        None => { out.nontrivial += 1; out.count(&format!("context_agrees:{}", ctx)); }
        Some(d) => out.fail(format!("{}|local-context-differs|{}:{}", id, ctx, t.tag), case, d),
      }
    }
  }
}
