//! Canonical, printer-independent observation of mech values.
//! Elements are read through `shape()` + `as_vec()` (column-major storage), never through a printer.
use mech_core::*;
use mech_core::matrix::Matrix;
use serde::{Deserialize, Serialize};

#[derive(Clone, Debug, PartialEq, Eq, Hash, PartialOrd, Ord, Serialize, Deserialize)]
pub enum Canon {
  /// scalar number: kind name ("f64", "u8", "r64", "c64" …) and an exact textual value
  Num(String, String),
  Bool(bool),
  Str(String),
  Atom(String),
  /// kind, rows, cols, elements ROW-major, storage form
  Matrix(String, usize, usize, Vec<Canon>, String),
  /// element kind (as declared), elements in iteration order, declared size
  Set(String, Vec<Canon>, usize),
  Tuple(Vec<Canon>),
  /// (field name, declared kind, value)
  Record(Vec<(String, String, Canon)>),
  /// columns (name, kind), rows of cells, declared row count
  Table(Vec<(String, String)>, Vec<Vec<Canon>>, usize),
  Map(Vec<(Canon, Canon)>),
  Enum(String),
  Kind(String),
  Empty,
  Id(u64),
  Other(String),
}

pub fn f64_text(x: f64) -> String {
  if x.is_nan() { "NaN".to_string() } else { format!("{:?}", x) }
}
pub fn f32_text(x: f32) -> String {
  if x.is_nan() { "NaN".to_string() } else { format!("{:?}", x) }
}

fn num<T: ToString>(k: &str, v: T) -> Canon { Canon::Num(k.to_string(), v.to_string()) }

fn storage_name<T>(m: &Matrix<T>) -> &'static str {
  match m {
    Matrix::DVector(_) => "DVector",
    Matrix::RowDVector(_) => "RowDVector",
    Matrix::DMatrix(_) => "DMatrix",
    #[allow(unreachable_patterns)]
    _ => "Fixed",
  }
}

fn mat<T: Clone + std::fmt::Debug + PartialEq + 'static>(k: &str, m: &Matrix<T>, f: &dyn Fn(&T) -> Canon) -> Canon {
  let sh = m.shape();
  let (r, c) = (sh[0], sh[1]);
  let cm = m.as_vec();
  let mut rm = Vec::with_capacity(cm.len());
  if cm.len() == r * c {
    for i in 0..r { for j in 0..c { rm.push(f(&cm[j * r + i])); } }
  } else {
    for e in cm.iter() { rm.push(f(e)); }
  }
  Canon::Matrix(k.to_string(), r, c, rm, storage_name(m).to_string())
}

pub fn r64_text(x: &R64) -> String { format!("{}/{}", x.numer(), x.denom()) }
pub fn c64_text(x: &C64) -> String { format!("{},{}", f64_text(x.0.re), f64_text(x.0.im)) }

pub fn canon(v: &Value) -> Canon { canon_d(v, 0) }

fn canon_d(v: &Value, depth: usize) -> Canon {
  if depth > 24 { return Canon::Other("too-deep".into()); }
  let d = depth + 1;
  match v {
    Value::U8(x) => num("u8", *x.borrow()),
    Value::U16(x) => num("u16", *x.borrow()),
    Value::U32(x) => num("u32", *x.borrow()),
    Value::U64(x) => num("u64", *x.borrow()),
    Value::U128(x) => num("u128", *x.borrow()),
    Value::I8(x) => num("i8", *x.borrow()),
    Value::I16(x) => num("i16", *x.borrow()),
    Value::I32(x) => num("i32", *x.borrow()),
    Value::I64(x) => num("i64", *x.borrow()),
    Value::I128(x) => num("i128", *x.borrow()),
    Value::F32(x) => Canon::Num("f32".into(), f32_text(*x.borrow())),
    Value::F64(x) => Canon::Num("f64".into(), f64_text(*x.borrow())),
    Value::R64(x) => Canon::Num("r64".into(), r64_text(&x.borrow())),
    Value::C64(x) => Canon::Num("c64".into(), c64_text(&x.borrow())),
    Value::String(x) => Canon::Str(x.borrow().clone()),
    Value::Bool(x) => Canon::Bool(*x.borrow()),
    Value::Atom(x) => Canon::Atom(x.borrow().name()),
    Value::MatrixIndex(m) => mat("ix", m, &|e| num("ix", *e)),
    Value::MatrixBool(m) => mat("bool", m, &|e| Canon::Bool(*e)),
    Value::MatrixU8(m) => mat("u8", m, &|e| num("u8", *e)),
    Value::MatrixU16(m) => mat("u16", m, &|e| num("u16", *e)),
    Value::MatrixU32(m) => mat("u32", m, &|e| num("u32", *e)),
    Value::MatrixU64(m) => mat("u64", m, &|e| num("u64", *e)),
    Value::MatrixU128(m) => mat("u128", m, &|e| num("u128", *e)),
    Value::MatrixI8(m) => mat("i8", m, &|e| num("i8", *e)),
    Value::MatrixI16(m) => mat("i16", m, &|e| num("i16", *e)),
    Value::MatrixI32(m) => mat("i32", m, &|e| num("i32", *e)),
    Value::MatrixI64(m) => mat("i64", m, &|e| num("i64", *e)),
    Value::MatrixI128(m) => mat("i128", m, &|e| num("i128", *e)),
    Value::MatrixF32(m) => mat("f32", m, &|e| Canon::Num("f32".into(), f32_text(*e))),
    Value::MatrixF64(m) => mat("f64", m, &|e| Canon::Num("f64".into(), f64_text(*e))),
    Value::MatrixString(m) => mat("string", m, &|e| Canon::Str(e.clone())),
    Value::MatrixR64(m) => mat("r64", m, &|e| Canon::Num("r64".into(), r64_text(e))),
    Value::MatrixC64(m) => mat("c64", m, &|e| Canon::Num("c64".into(), c64_text(e))),
    Value::MatrixValue(m) => mat("value", m, &|e| canon_d(e, d)),
    Value::Set(s) => {
      let s = s.borrow();
      Canon::Set(format!("{}", s.kind), s.set.iter().map(|e| canon_d(e, d)).collect(), s.num_elements)
    }
    Value::Map(m) => {
      let m = m.borrow();
      Canon::Map(m.map.iter().map(|(k, v)| (canon_d(k, d), canon_d(v, d))).collect())
    }
    Value::Record(r) => {
      let r = r.borrow();
      let mut out = vec![];
      for (i, (id, val)) in r.data.iter().enumerate() {
        let name = r.field_names.get(id).cloned().unwrap_or_else(|| format!("#{}", id));
        let kind = r.kinds.get(i).map(|k| format!("{}", k)).unwrap_or_default();
        out.push((name, kind, canon_d(val, d)));
      }
      Canon::Record(out)
    }
    Value::Table(t) => {
      let t = t.borrow();
      let mut cols = vec![];
      let mut colvals: Vec<Vec<Canon>> = vec![];
      for (id, (kind, m)) in t.data.iter() {
        let name = t.col_names.get(id).cloned().unwrap_or_else(|| format!("#{}", id));
        cols.push((name, format!("{}", kind)));
        colvals.push(m.as_vec().iter().map(|e| canon_d(e, d)).collect());
      }
      let nr = colvals.iter().map(|c| c.len()).max().unwrap_or(0);
      let mut rows = vec![];
      for i in 0..nr {
        rows.push(colvals.iter().map(|c| c.get(i).cloned().unwrap_or(Canon::Other("missing".into()))).collect());
      }
      Canon::Table(cols, rows, t.rows)
    }
    Value::Tuple(t) => Canon::Tuple(t.borrow().elements.iter().map(|e| canon_d(e, d)).collect()),
    Value::Enum(e) => {
      let e = e.borrow();
      let dict = e.names.borrow();
      let mut s = format!("{}", dict.get(&e.id).cloned().unwrap_or_else(|| format!("{}", e.id)));
      for (vid, payload) in &e.variants {
        let vn = dict.get(vid).cloned().unwrap_or_else(|| format!("{}", vid));
        match payload {
          Some(p) => s.push_str(&format!("|:{}({:?})", vn, canon_d(p, d))),
          None => s.push_str(&format!("|:{}", vn)),
        }
      }
      Canon::Enum(s)
    }
    Value::Id(x) => Canon::Id(*x),
    Value::Index(x) => num("ix", *x.borrow()),
    Value::MutableReference(r) => canon_d(&r.borrow(), d),
    Value::Typed(b, _k) => canon_d(b, d),
    Value::Kind(k) => Canon::Kind(format!("{}", k)),
    Value::IndexAll => Canon::Other("IndexAll".into()),
    Value::EmptyKind(k) => Canon::Other(format!("EmptyKind({})", k)),
    Value::Empty => Canon::Empty,
    #[allow(unreachable_patterns)]
    _ => Canon::Other("unknown-variant".into()),
  }
}

impl Canon {
  pub fn short(&self) -> String {
    match self {
      Canon::Num(k, t) => format!("{}<{}>", t, k),
      Canon::Bool(b) => format!("{}", b),
      Canon::Str(s) => format!("{:?}", s),
      Canon::Atom(a) => format!(":{}", a),
      Canon::Matrix(k, r, c, e, _s) => {
        let mut s = format!("[{}]:{}x{}[", k, r, c);
        for i in 0..*r {
          if i > 0 { s.push_str("; "); }
          for j in 0..*c {
            if j > 0 { s.push(' '); }
            if let Some(x) = e.get(i * c + j) { s.push_str(&x.bare()); }
          }
        }
        s.push(']');
        s
      }
      Canon::Set(k, e, n) => format!("{{{}}}#{}{{{}}}", k, n, e.iter().map(|x| x.short()).collect::<Vec<_>>().join(", ")),
      Canon::Tuple(e) => format!("({})", e.iter().map(|x| x.short()).collect::<Vec<_>>().join(", ")),
      Canon::Record(f) => format!("{{{}}}", f.iter().map(|(n, k, v)| format!("{}<{}>: {}", n, k, v.short())).collect::<Vec<_>>().join(", ")),
      Canon::Table(c, rows, n) => format!("|{}|#{}{:?}", c.iter().map(|(n, k)| format!("{}<{}>", n, k)).collect::<Vec<_>>().join(" "), n,
        rows.iter().map(|r| r.iter().map(|x| x.short()).collect::<Vec<_>>()).collect::<Vec<_>>()),
      Canon::Map(m) => format!("map{:?}", m.iter().map(|(k, v)| (k.short(), v.short())).collect::<Vec<_>>()),
      Canon::Enum(s) => format!("enum {}", s),
      Canon::Kind(k) => format!("<{}>", k),
      Canon::Empty => "_".into(),
      Canon::Id(i) => format!("id({})", i),
      Canon::Other(s) => format!("other({})", s),
    }
  }
  pub fn bare(&self) -> String {
    match self { Canon::Num(_, t) => t.clone(), o => o.short() }
  }
  pub fn is_matrix(&self) -> bool { matches!(self, Canon::Matrix(..)) }
  pub fn kind_name(&self) -> String {
    match self {
      Canon::Num(k, _) => k.clone(),
      Canon::Bool(_) => "bool".into(),
      Canon::Str(_) => "string".into(),
      Canon::Matrix(k, ..) => k.clone(),
      Canon::Atom(_) => "atom".into(),
      Canon::Set(..) => "set".into(),
      Canon::Tuple(_) => "tuple".into(),
      Canon::Record(_) => "record".into(),
      Canon::Table(..) => "table".into(),
      Canon::Map(_) => "map".into(),
      Canon::Enum(_) => "enum".into(),
      Canon::Kind(_) => "kind".into(),
      Canon::Empty => "empty".into(),
      Canon::Id(_) => "id".into(),
      Canon::Other(_) => "other".into(),
    }
  }
  /// (rows, cols, row-major elements) for a matrix; a scalar is returned as None.
  pub fn as_matrix(&self) -> Option<(usize, usize, &Vec<Canon>)> {
    match self { Canon::Matrix(_, r, c, e, _) => Some((*r, *c, e)), _ => None }
  }
}
