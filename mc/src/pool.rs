//! Driver/worker split: the subject only ever runs in worker subprocesses with an address-space cap
//! and a per-unit wall-clock budget. Hangs/aborts are attributed to one unit and re-confirmed alone.
use serde::{Deserialize, Serialize};
use std::collections::{BTreeMap, BTreeSet, VecDeque};
use std::io::{BufRead, BufReader, Write};
use std::os::unix::process::CommandExt;
use std::os::unix::process::ExitStatusExt;
use std::process::{Child, ChildStdin, Command, Stdio};
use std::sync::mpsc::{channel, Receiver, RecvTimeoutError};
use std::sync::{Arc, Mutex};
use std::time::Duration;

#[derive(Clone, Copy, Debug, PartialEq, Eq)]
pub enum Tier { Quick, Thorough }
impl Tier {
  pub fn name(&self) -> &'static str { match self { Tier::Quick => "quick", Tier::Thorough => "thorough" } }
  pub fn parse(s: &str) -> Tier { if s.starts_with('t') { Tier::Thorough } else { Tier::Quick } }
  pub fn pick<T>(&self, q: T, t: T) -> T { match self { Tier::Quick => q, Tier::Thorough => t } }
}

#[derive(Clone, Debug, Serialize, Deserialize)]
pub struct Failure {
  /// finding key `<ID>|<class>|<locus>`
  pub key: String,
  /// stable, human readable identification of the failing case (program text / history / mutant id)
  pub case: String,
  /// expected vs observed
  pub detail: String,
  #[serde(default)]
  pub payload: String,
  #[serde(default)]
  pub unit: u64,
}

#[derive(Clone, Debug, Default, Serialize, Deserialize)]
pub struct WorkerOut {
  pub evaluations: u64,
  pub nontrivial: u64,
  pub counters: BTreeMap<String, u64>,
  pub sets: BTreeMap<String, BTreeSet<String>>,
  pub failures: Vec<Failure>,
  pub samples: Vec<serde_json::Value>,
  /// free-form per-unit results (used by the explicit-state searches)
  pub extra: Vec<serde_json::Value>,
}

impl WorkerOut {
  pub fn count(&mut self, k: &str) { *self.counters.entry(k.to_string()).or_insert(0) += 1; }
  pub fn add(&mut self, k: &str, n: u64) { *self.counters.entry(k.to_string()).or_insert(0) += n; }
  pub fn set(&mut self, set: &str, item: &str) {
    let s = self.sets.entry(set.to_string()).or_default();
    if s.len() < 20000 { s.insert(item.to_string()); }
  }
  pub fn fail(&mut self, key: String, case: String, detail: String) {
    self.failures.push(Failure { key, case, detail, payload: String::new(), unit: 0 });
  }
  pub fn sample(&mut self, v: serde_json::Value) { if self.samples.len() < 4 { self.samples.push(v); } }
  pub fn merge(&mut self, o: WorkerOut) {
    self.evaluations += o.evaluations;
    self.nontrivial += o.nontrivial;
    for (k, v) in o.counters { *self.counters.entry(k).or_insert(0) += v; }
    for (k, v) in o.sets { let s = self.sets.entry(k).or_default(); for i in v { if s.len() < 200000 { s.insert(i); } } }
    self.failures.extend(o.failures);
    for s in o.samples { if self.samples.len() < 64 { self.samples.push(s); } }
    self.extra.extend(o.extra);
  }
}

#[derive(Clone, Debug)]
pub struct Job { pub payload: String, pub lo: u64, pub hi: u64 }

#[derive(Clone, Debug, PartialEq, Eq)]
pub enum CrashKind { Hang, Abort(String), /// the worker itself timed a case out, named it, and exited
  HangOn(String) }
impl CrashKind {
  pub fn class(&self) -> &'static str { match self { CrashKind::Hang | CrashKind::HangOn(_) => "hang", CrashKind::Abort(_) => "abort" } }
}

pub enum Event {
  Done(Job, WorkerOut),
  Crash(Job, u64, CrashKind),
  /// a crash that did not reproduce when the unit was re-run alone
  Flaky(Job, u64, CrashKind),
  Machinery(String),
}

pub trait UnitRunner {
  /// run one unit of one job in the worker process
  fn unit(&mut self, payload: &str, unit: u64, out: &mut WorkerOut);
}

// ---------------------------------------------------------------------------------------------
// worker side

static PROTO_FD: std::sync::atomic::AtomicI32 = std::sync::atomic::AtomicI32::new(-1);

/// called by a runner that timed one of its own cases out: names the case on the protocol channel and ends the worker
/// (the stuck thread cannot be stopped); the pool reports a hang on exactly this case
pub fn self_report_hang_and_exit(what: &str) -> ! {
  let fd = PROTO_FD.load(std::sync::atomic::Ordering::SeqCst);
  if fd >= 0 { let line = format!("H {}\n", what.replace('\n', "\\n")); unsafe { libc::write(fd, line.as_ptr() as *const libc::c_void, line.len()); } }
  std::process::exit(3)
}

pub fn worker_loop(runner: &mut dyn UnitRunner) {
  // keep the protocol on a private fd; whatever the subject prints goes to /dev/null
  let proto_fd = unsafe { libc::dup(1) };
  PROTO_FD.store(proto_fd, std::sync::atomic::Ordering::SeqCst);
  unsafe {
    let dn = libc::open(b"/dev/null\0".as_ptr() as *const libc::c_char, libc::O_WRONLY);
    libc::dup2(dn, 1);
    if std::env::var("MC_WORKER_STDERR").is_err() { libc::dup2(dn, 2); }
  }
  use std::os::unix::io::FromRawFd;
  let mut proto = unsafe { std::fs::File::from_raw_fd(proto_fd) };
  if std::env::var("MC_WORKER_STDERR").is_err() { crate::subject::silence_panics(); }
  let _ = writeln!(proto, "READY");
  let stdin = std::io::stdin();
  for line in stdin.lock().lines() {
    let line = match line { Ok(l) => l, Err(_) => break };
    if !line.starts_with("J ") { continue; }
    let mut it = line.splitn(5, ' ');
    it.next();
    let jobid: u64 = it.next().unwrap().parse().unwrap();
    let lo: u64 = it.next().unwrap().parse().unwrap();
    let hi: u64 = it.next().unwrap().parse().unwrap();
    let payload = it.next().unwrap_or("");
    let mut out = WorkerOut::default();
    for u in lo..hi {
      let _ = writeln!(proto, "S {}", u);
      let nf = out.failures.len();
      runner.unit(payload, u, &mut out);
      for f in out.failures[nf..].iter_mut() { f.payload = payload.to_string(); f.unit = u; }
    }
    let _ = writeln!(proto, "R {} {}", jobid, serde_json::to_string(&out).unwrap());
  }
}

// ---------------------------------------------------------------------------------------------
// driver side

pub struct PoolCfg {
  pub id: String,
  pub tier: Tier,
  pub workers: usize,
  pub unit_budget: Duration,
  pub mem_bytes: u64,
}

struct Proc { child: Child, stdin: ChildStdin, rx: Receiver<Option<String>> }

fn spawn_worker(cfg: &PoolCfg) -> std::io::Result<Proc> {
  let exe = std::env::current_exe()?;
  let mut cmd = Command::new(exe);
  cmd.arg("worker").arg(&cfg.id).arg(cfg.tier.name()).stdin(Stdio::piped()).stdout(Stdio::piped());
  if std::env::var("MC_WORKER_STDERR").is_err() { cmd.stderr(Stdio::null()); }
  let mem = cfg.mem_bytes;
  unsafe {
    cmd.pre_exec(move || {
      let lim = libc::rlimit { rlim_cur: mem, rlim_max: mem };
      libc::setrlimit(libc::RLIMIT_AS, &lim);
      let core = libc::rlimit { rlim_cur: 0, rlim_max: 0 };
      libc::setrlimit(libc::RLIMIT_CORE, &core);
      Ok(())
    });
  }
  let mut child = cmd.spawn()?;
  let stdin = child.stdin.take().unwrap();
  let stdout = child.stdout.take().unwrap();
  let (tx, rx) = channel();
  std::thread::spawn(move || {
    let r = BufReader::new(stdout);
    for l in r.lines() {
      match l { Ok(l) => { if tx.send(Some(l)).is_err() { return; } } Err(_) => break }
    }
    let _ = tx.send(None);
  });
  Ok(Proc { child, stdin, rx })
}

fn kill(p: &mut Proc) -> String {
  let _ = p.child.kill();
  match p.child.wait() {
    Ok(st) => match st.signal() { Some(s) => format!("signal {}", s), None => format!("exit {:?}", st.code()) },
    Err(e) => format!("wait failed {}", e),
  }
}

enum RunResult { Ok(WorkerOut), Crash(u64, CrashKind) }

/// run one job on one (possibly freshly spawned) process
fn run_job(cfg: &PoolCfg, slot: &mut Option<Proc>, job: &Job, jobid: u64, budget: Duration) -> Result<RunResult, String> {
  if slot.is_none() {
    let p = spawn_worker(cfg).map_err(|e| format!("spawn: {}", e))?;
    // wait for READY (startup may build caches)
    match p.rx.recv_timeout(Duration::from_secs(120)) {
      Ok(Some(l)) if l == "READY" => {}
      other => { let mut p = p; kill(&mut p); return Err(format!("worker did not become ready: {:?}", other.ok())); }
    }
    *slot = Some(p);
  }
  let p = slot.as_mut().unwrap();
  let line = format!("J {} {} {} {}\n", jobid, job.lo, job.hi, job.payload.replace('\n', " "));
  if p.stdin.write_all(line.as_bytes()).is_err() || p.stdin.flush().is_err() {
    let mut p = slot.take().unwrap();
    kill(&mut p);
    return Err("worker stdin closed before job".into());
  }
  let mut cur: Option<u64> = None;
  let mut self_reported: Option<String> = None;
  loop {
    match p.rx.recv_timeout(budget) {
      Ok(Some(l)) => {
        if let Some(rest) = l.strip_prefix("S ") { cur = rest.trim().parse().ok(); }
        else if let Some(rest) = l.strip_prefix("H ") { self_reported = Some(rest.to_string()); }
        else if let Some(rest) = l.strip_prefix("R ") {
          let mut it = rest.splitn(2, ' ');
          let _id = it.next();
          let js = it.next().unwrap_or("{}");
          return match serde_json::from_str::<WorkerOut>(js) {
            Ok(o) => Ok(RunResult::Ok(o)),
            Err(e) => Err(format!("bad worker result: {}", e)),
          };
        }
      }
      Ok(None) | Err(RecvTimeoutError::Disconnected) => {
        let mut p = slot.take().unwrap();
        let how = match p.child.wait() {
          Ok(st) => match st.signal() { Some(s) => format!("signal {}", s), None => format!("exit {:?}", st.code()) },
          Err(e) => format!("{}", e),
        };
        if let Some(h) = self_reported { return Ok(RunResult::Crash(cur.unwrap_or(job.lo), CrashKind::HangOn(h))); }
        return Ok(RunResult::Crash(cur.unwrap_or(job.lo), CrashKind::Abort(how)));
      }
      Err(RecvTimeoutError::Timeout) => {
        let mut p = slot.take().unwrap();
        kill(&mut p);
        return Ok(RunResult::Crash(cur.unwrap_or(job.lo), CrashKind::Hang));
      }
    }
  }
}

/// Run all jobs on `cfg.workers` subprocesses; every event is delivered to `sink` on the calling thread.
pub fn run_jobs(cfg: &PoolCfg, jobs: Vec<Job>, sink: &mut dyn FnMut(Event)) {
  let cfg = Arc::new(PoolCfg { id: cfg.id.clone(), tier: cfg.tier, workers: cfg.workers, unit_budget: cfg.unit_budget, mem_bytes: cfg.mem_bytes });
  let queue: Arc<Mutex<(VecDeque<Job>, usize)>> = Arc::new(Mutex::new((jobs.into_iter().collect(), 0)));
  let (tx, rx) = channel::<Event>();
  let mut handles = vec![];
  let nw = cfg.workers.max(1);
  for w in 0..nw {
    let cfg = cfg.clone();
    let queue = queue.clone();
    let tx = tx.clone();
    handles.push(std::thread::spawn(move || {
      let mut slot: Option<Proc> = None;
      let mut jobid: u64 = (w as u64) << 40;
      loop {
        let job = {
          let mut q = queue.lock().unwrap();
          match q.0.pop_front() {
            Some(j) => { q.1 += 1; Some(j) }
            None => { if q.1 == 0 { break; } None }
          }
        };
        let job = match job { Some(j) => j, None => { std::thread::sleep(Duration::from_millis(5)); continue; } };
        jobid += 1;
        match run_job(&cfg, &mut slot, &job, jobid, cfg.unit_budget) {
          Ok(RunResult::Ok(o)) => { let _ = tx.send(Event::Done(job.clone(), o)); }
          Ok(RunResult::Crash(u, kind)) => {
            // confirm on the single unit alone, fresh process, 3x budget
            let single = Job { payload: job.payload.clone(), lo: u, hi: u + 1 };
            let mut fresh: Option<Proc> = None;
            jobid += 1;
            match run_job(&cfg, &mut fresh, &single, jobid, cfg.unit_budget * 3) {
              Ok(RunResult::Crash(_, k2)) => { let _ = tx.send(Event::Crash(single.clone(), u, k2)); }
              Ok(RunResult::Ok(o)) => {
                let _ = tx.send(Event::Flaky(single.clone(), u, kind));
                let _ = tx.send(Event::Done(single.clone(), o));
              }
              Err(e) => { let _ = tx.send(Event::Machinery(e)); }
            }
            if let Some(mut p) = fresh.take() { kill(&mut p); }
            let mut q = queue.lock().unwrap();
            if u > job.lo { q.0.push_back(Job { payload: job.payload.clone(), lo: job.lo, hi: u }); }
            if u + 1 < job.hi { q.0.push_back(Job { payload: job.payload.clone(), lo: u + 1, hi: job.hi }); }
          }
          Err(e) => { let _ = tx.send(Event::Machinery(e)); }
        }
        queue.lock().unwrap().1 -= 1;
      }
      if let Some(mut p) = slot.take() { drop(p.stdin); let _ = p.child.wait(); }
    }));
  }
  drop(tx);
  for ev in rx { sink(ev); }
  for h in handles { let _ = h.join(); }
}
