#!/bin/sh
# one-time offline build of the harness against /repo (path dependencies; same [patch] table as /repo/Cargo.toml)
HERE=$(cd "$(dirname "$0")" && pwd)
export CARGO_NET_OFFLINE=true
export CARGO_TARGET_DIR="$HERE/target"
mkdir -p "$HERE/target" "$HERE/evidence" "$HERE/replays"
cd "$HERE/mc" || exit 2
cp /repo/Cargo.lock Cargo.lock
cargo build --offline --profile verif --bin mc || exit 2
# C20 needs the top-level `mech` crate (src/mechfs.rs): second binary, same harness
cargo build --offline --profile verif --features fs --bin mcfs || exit 2
